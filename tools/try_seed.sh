#!/bin/bash
# usage: tools/try_seed.sh <patch.diff> [checks...]
# Applies a candidate change to /repo's working tree exactly as an outside change would be, runs the repository's
# own test suite (must still pass), runs the given checks (default: all, quick), prints which raise an alarm,
# and always restores /repo afterwards.
patch="$1"; shift
checks="$@"
[ -z "$checks" ] && checks=$(python3 -c "import json;print(' '.join(c['property_id'] for c in json.load(open('/verif/MANIFEST.json'))['checks']))")
cd /repo || exit 2
if ! git diff --quiet; then echo "/repo has uncommitted changes; refusing"; exit 2; fi
git apply "$patch" || { echo "patch does not apply"; exit 2; }
trap 'git -C /repo checkout -- . ; git -C /repo clean -fdq -- tests src specification specification-derive 2>/dev/null' EXIT
echo "== repository tests with the change"
cargo test --workspace --no-fail-fast --offline 2>&1 | grep -E "^test result|FAILED|panicked" | sort | uniq -c
echo "== checks"
mkdir -p /verif/target/seed_logs
for p in $checks; do
  s=$(date +%s)
  /verif/run $p quick > /verif/target/seed_logs/$p.log 2>&1
  rc=$?
  e=$(date +%s)
  nv=$(grep -c '^VIOLATION' /verif/target/seed_logs/$p.log)
  echo "$p exit=$rc violations_classes=$nv secs=$((e-s))"
  if [ $rc -ne 0 ]; then grep -E "^  class .*/" /verif/target/seed_logs/$p.log | head -4 | cut -c1-220; grep -E "^MACHINERY" /verif/target/seed_logs/$p.log | head -3; fi
done
