#!/usr/bin/env python3
"""Regenerates /verif/MANIFEST.json from the table below (kept next to the checks so it stays current)."""
import json

ALL = ["C%02d" % i for i in range(1, 21)]

# property -> (technique, level text, level note, design ref)
CHECKS = {
 "C01": ("exhaustive enumeration of trees x write options x presentations through the real writer, read back by the real strict iterator, against the ground-truth flattening",
         "Every forest over the macro-derived schema V up to 5 (thorough 6) elements with every known/unknown-size choice and <= 1 (2) deviations among size width 1..8 and payload classes (boundary integers, NaN patterns, 0/127/128-byte strings), deep spines, size-boundary documents (124..128, 16379..16384, thorough 2^21 bytes), raw tags with unknown ids, every Full antichain for small documents, documents longer than the reader's 64 KiB buffer with 9-16 byte headers at every alignment around the buffer boundary, and forests over an 8-deep runtime specification with ids of every byte length: whenever the writer accepts every call the strict read must equal flatten(tree).",
         "Trusted: flatten(tree). Calls the writer rejects are not judged here. Excluded as inherently ambiguous: a global element directly after an unknown-size master.",
         "DESIGN.md section 4, C01"),
 "C02": ("exhaustive enumeration of reader-accepted streams (writer outputs, reference encodings incl. non-canonical ones, every small byte string, single mutations) re-written through the real writer and re-read",
         "Every stream that begins at a root element and that the strict iterator reads cleanly, from the writer-output space, RefEncoder outputs with zero-length / padded integers, 4-byte floats, wide size fields and implicitly closed unknown-size masters, size-boundary documents (124..128, 16379..16384 bytes), every Σ string up to length 5 (6) and single mutations; also with all masters buffered: each emitted item is written back, must be accepted, and the second read must be identical.",
         "Trusted: normalisation of items (accessor based). 64 KiB reader size limit on mutated inputs.",
         "DESIGN.md section 4, C02"),
 "C05": ("exhaustive enumeration of API call histories (next / try_recover placements, injected source errors, short reads) over small inputs and adversarial header tokens on the real iterator, under catch_unwind and a watchdog",
         "Every Σ string up to length 5 (6) and every sequence of <= 2 adversarial header tokens under a configuration lattice; every Σ string up to length 3 (4) and every token with try_recover() at every set of <= 2 op positions x injected read errors x short reads: no panic, no hang, linear output, fused after None, each injected error surfaced exactly once, try_recover fails only with EOF/IO; plus inputs of 60 000 (200 000) adjacent elements per shape, buffered and not (call depth must not grow with the input: a stack overflow aborts the worker and is attributed).",
         "Trusted: the scripted source. Post-error output is unconstrained except for panics.",
         "DESIGN.md section 4, C05"),
 "C08": ("exhaustive enumeration of documents x every subset of present masters as buffered set (and mutations, small byte strings) compared in lock-step with the unbuffered parse (differential oracle)",
         "Every document up to 5 (6) elements with all known/unknown-size mixes x EVERY subset of its masters buffered, every single mutation of the small documents, every Σ string up to length 5 (6) with four buffered sets, strict and all-tolerant: the buffered parse with Full items unrolled must equal the flat parse (items, offsets outside Full, Full offset, clean end iff clean end, error => prefix + error).",
         "Trusted: unroll(Full) (10 lines). End-of-stream closing at its default.",
         "DESIGN.md section 4, C08"),
 "C09": ("exhaustive enumeration of trees x options with every Full antichain, the deprecated call, Ends carrying options and every short-write schedule, compared byte-for-byte; output walked by a reference decoder guided by the tree",
         "Forests up to 4 (5) elements + spines + size-boundary documents with <= 1 (2) option deviations (width 1..8, unknown, payload classes): Start/End presentation vs every Full antichain vs deprecated call vs Ends-with-options vs trailing Ends left to into_inner vs destinations accepting 1..3 bytes per write / Interrupted (all compositions for outputs <= 10 bytes); reference walk checks ids, payloads, order, size == content length, requested width exact, never the reserved all-ones size.",
         "Trusted: RefCodec walk guided by the tree. Default widths unconstrained beyond well-formedness.",
         "DESIGN.md section 4, C09"),
 "C10": ("depth-first exhaustive exploration of writer call sequences on the real TagWriter with a reference model of open chain and accepted tags; destination inspected after every call, into_inner tried in every state",
         "Every sequence of up to 8 (10) calls over a 17 (22)-call alphabet (known/unknown/width Starts, Ends, leaves, one- and two-level Full, write_raw, flush) over a destination that accepts every write whole and, two levels shallower, over destinations that accept 1 resp. 3 bytes per write call; rejected calls are not extended. Invariants in every reached state: destination append-only; no growth while a known-size master stays open; complete and readable (strict iterator) whenever none is open; into_inner extends what was handed over and reads as all accepted tags.",
         "Trusted: the 60-line writer model. Read-back is not compared after an element that never closes an unknown-size master follows such a master's explicit End (inherent ambiguity).",
         "DESIGN.md section 4, C10"),
 "C11": ("explicit exploration of the reference-reachable chain state space of every specification in a bounded family, probing every tag in every state on the real writer and the real strict reader against a recursive reference matcher",
         "3.3 k (thorough: placeholders <= 3, ~60 k) runtime specifications (all forests of <= 4 masters, placeholder bounds on master edges, trailing leaf and global leaves, ids of every length) plus the macro-derived V and W: for every chain reachable in the reference transition relation to depth 5 (6), every tag is probed in the writer (known / unknown chains, plain / unknown-size starts via both calls) and in the reader (none / all / single / all-but-one unknown-size masks): accept iff ref_path_match, reader judged after RefClose, rejections carry the id.",
         "Trusted: ref_path_match, RefClose (12 lines), consistent table-driven specification type. Reader probes use chains whose outermost master is non-global.",
         "DESIGN.md section 4, C11"),
 "C13": ("exhaustive enumeration of inputs x 8 tolerance subsets x size limits, with single injected faults of each class at every element (reference-computed expectations) and universal cross-configuration relations",
         "Every known-size document up to 4 (5) elements with each fault class injected at every element, under all 8 tolerance subsets; every Σ string up to length 5 (6), documents and single mutations x 8 subsets x limits: error kind/offset/id exact when not tolerated, kind absent when tolerated, no raw tags unless tolerated, default limit enforced under every subset, strict items a prefix of every tolerant parse for root-starting inputs.",
         "Trusted: RefEncoder layout for fault positions. HierarchyError has no position: the id is compared.",
         "DESIGN.md section 4, C13"),
 "C14": ("exhaustive enumeration of documents x every tag boundary x junk runs x capacities with an independently computed precondition and reference expectations",
         "Every document up to 5 (6) elements (known and unknown-size masters, spines), every tag boundary, every junk string up to length 3 over four never-an-id bytes plus structured runs to length 6 (10), capacities {default,16}: when the following tag still fits its known-size ancestors: prefix unchanged, exactly one error, try_recover Ok, rest equals the undamaged document shifted (also with oversized children / hierarchy problems tolerated); always: no panic, no backwards move, failure only as EOF/IO.",
         "Trusted: RefEncoder layout, flatten, the precondition formula of the statement.",
         "DESIGN.md section 4, C14"),
 "C17": ("exhaustive enumeration of header-only streams over a size/width/limit/capacity/context/tolerance lattice, measured with a counting global allocator against a same-stream-with-size-0 baseline",
         "Every element type in four contexts declaring S in {0,1,M-1,M,M+1,2M,2^20,2^30,2^40,2^56-2} in every VINT width, payload absent / partial / followed by a 200 KB tail, M in {5,16,1000,2^20,default}, capacities {16,4096,default}, 8 tolerance subsets: over-limit => rejected, peak heap growth within 4 KiB of the S=0 baseline, nothing read past the buffer; within limit => growth <= 8*max(S,capacity)+64 KiB; never a panic; long streams of 10-30 thousand small elements of varying size: the largest slice ever offered to read() stays within 4 x max(capacity, largest payload). Requests above 256 MiB abort the worker and are attributed.",
         "Trusted: the counting allocator (requested bytes). Within-limit sizes above 2^20 are not executed.",
         "DESIGN.md section 4, C17"),
 "C18": ("exhaustive enumeration of a bounded declaration space through the real proc-macro (compiled by rustc, generated code compared with the declaration table) and through the macro sources as a library (front-end equality, single-fault rejections)",
         "506 (thorough 4.3 k) declarations (<= 3 user variants, six types, any earlier master as parent, trailing placeholders) in both front-ends: compiled, and every trait function compared for every declared and probe id, plus a write/read smoke run; both front-ends token-identical in library mode; every single-fault perturbation (13 kinds x 2 front-ends) rejected with an error; must-fail programs compiled one by one.",
         "Trusted: rustc, the generated checker (generic over the traits). Library mode includes the macro sources by path.",
         "DESIGN.md section 4, C18"),
 "C19": ("depth-first exhaustive exploration of valid writer histories x every rejected call x every continuation of <= 2 calls, differential against the history without the rejected call",
         "Every accepted history up to depth 4 (5) over a 14 (17)-call alphabet, every alphabet or failing-only call (24 shapes covering the six kinds the statement lists plus Full-with-unknown-size and flush) that the writer rejects with a non-I/O error there, every continuation of <= 2 calls then into_inner (under catch_unwind): same Ok/Err kinds, identical destination after each later call, identical final bytes.",
         "Trusted: nothing beyond the harness (pure differential). Calls the writer accepts are outside the premise.",
         "DESIGN.md section 4, C19"),
 "C20": ("exhaustive enumeration of async read schedules (all compositions for small inputs, Pending polls) on a single-threaded executor against the blocking iterator, with a defect model narrowing the one known finding",
         "Documents up to 3 (4) elements, truncations and corruptions x buffered sets x ALL compositions into async reads for inputs up to 10 (13) bytes, Pending deviations, three inputs > 64 KiB (one > 128 KiB with a 200 KB item); next().await loop (with offsets) and into_stream(): must equal the blocking iterator and end once. Multi-read deviations are accepted only if they equal the one-read-per-call defect model exactly (KNOWN-FINDING D17).",
         "Trusted: scripted AsyncRead, futures::executor::block_on. The known finding suppresses only the model-predicted deviation.",
         "DESIGN.md sections 4 and 7, C20"),
 "C03": ("exhaustive enumeration of inputs x configurations on the real iterator; per-item reference decode of the input at the reported offset",
         "Every byte string over an 18-symbol role-colliding alphabet up to length 5 (thorough 6), every document of a bounded tree x encoding space and every single mutation of it, under 8 tolerance subsets x buffered sets x 2 capacities, plus > 64 KiB buffer-boundary documents and size-boundary documents: each Ok item is compared with an independent RefCodec decode of the input at its reported offset (id, value, End/Full offsets, contiguity), including the children of Full items.",
         "Trusted: RefCodec header/payload decoders. A 0x00 id byte is mirrored as id 0 when unknown ids are tolerated (documented tolerant behaviour). Payload contents outside the representative classes are assumed data-independent.",
         "DESIGN.md section 4, C03"),
 "C04": ("exhaustive enumeration of read schedules (all 2^(len-1) compositions for small inputs), capacities and EOF-pause subsets against the slice parse (differential oracle)",
         "For every input up to 11 (thorough 13) bytes from Σ*, the document corpus, its truncations and corruptions: ALL compositions of the input into read() results x 14 capacities (0..len+1, default); longer inputs with <= 2 short reads and uniform short-read schedules (every read 1..13 bytes), documents with 16-byte headers and all their truncations, three > 64 KiB documents; with end-of-stream closing off, a temporary end of file (persisting until the caller has seen None) at every subset of tag boundaries incl. before the first byte. Items, offsets and the first error must equal the slice parse.",
         "Trusted: the scripted Read implementations (30 lines). Sources that violate the Read contract are out of scope.",
         "DESIGN.md section 4, C04"),
 "C06": ("exhaustive enumeration of byte streams on the strict iterator; replay of the emitted items through an independent nesting/path/extent checker",
         "Every Σ string up to length 6 (thorough 7), every document of the tree x encoding space (known/unknown-size mixes, five master levels) and every single mutation incl. every mid-document suffix, and > 64 KiB buffer-boundary documents with cuts around the boundary: the Ok items are replayed through NestingChecker (End matching incl. implied ancestors, reference path matcher, extents inside known-size ancestors via RefCodec, known-size End neither early nor late, all closed at clean end).",
         "Trusted: RefSpec table of V, ref_path_match (20 lines), RefCodec. Only specification V (derived by the real macro) is exercised here; other specifications are covered by C11.",
         "DESIGN.md section 4, C06"),
 "C07": ("exhaustive enumeration of trees x all 2^m unknown-size subsets, encoded by a reference encoder and by the real writer, parsed by the real strict iterator against the ground-truth flattening",
         "Every forest over V up to 5 (thorough 6) elements plus deep spines, every subset of masters encoded with unknown size (1- and 8-byte markers), through RefEncoder and through TagWriter::write_advanced(unknown): the strict parse must equal flatten(tree) with the reference offsets.",
         "Trusted: RefEncoder/flatten (tree -> bytes, layout, items). Documents with a global element directly after an unknown-size master are excluded as inherently ambiguous (the statement excludes them).",
         "DESIGN.md section 4, C07"),
 "C12": ("exhaustive enumeration of documents x every cut position x capacities x short-read schedules against expectations computed from the reference layout",
         "Every document of the tree x encoding space (one deviation: payload class, size width, non-minimal fields; known and unknown-size masters), every cut position 0..=len, capacities {default,16,17,64}, schedules with <= 1 short read: items must be exactly those complete in the prefix, then Ends+None on a tag boundary or UnexpectedEOF with exact tag_start / id / size / partial_data.",
         "Trusted: RefEncoder layout and the completion-position rule of DESIGN C12. partial_data None is accepted when zero payload bytes were available.",
         "DESIGN.md section 4, C12"),
 "C15": ("exhaustive enumeration of a bounded input lattice of the real codec functions against a u128 reference codec",
         "Every u64 below 2^22 (thorough 2^28) and every i64 of magnitude below 2^21 (2^27), plus the +-2 lattice around every power of two up to 2^64, through every encoder width; every byte slice of length 0-3 and a first-byte-free family of lengths 4-9 through both decoders. Complete enumeration of that space, each call compared with RefCodec; no sampling.",
         "Trusted: RefCodec (u128 arithmetic, ~60 lines). Values between lattice points above the exhaustive range are not executed; non-first VINT bytes are assumed data-independent.",
         "DESIGN.md section 4, C15"),
 "C16": ("exhaustive enumeration of byte slices and of the writer's value lattice against a reference decoder",
         "Every slice of length 0-2 and the boundary-alphabet family of lengths 3-9 through the three payload decoders; every lattice value of u64/i64 and the float classes written by the real TagWriter and located in the output with RefCodec.",
         "Trusted: RefCodec big-endian / two's-complement / IEEE-754 decoders built on std conversions.",
         "DESIGN.md section 4, C16"),
}

# additions made during the seeded-change rounds 4-8 (DESIGN.md section 11.3), appended to the level text
EXTRA = {
 "C01": "one rejected call at every position of the small documents; output also read with capacity 16; payload class x explicit width; boundary-length masters followed by globals / unknown ids",
 "C02": "grown-buffer documents (payload above the initial capacity inside open known-size masters) x capacities",
 "C03": "same-id nesting with the id buffered (hierarchy problems tolerated)",
 "C04": "documents under size limits of 1 and 3 bytes",
 "C05": "recovery / injected-error histories over every single mutation of every small document",
 "C06": "the second derived specification W (placeholder paths, a global master); buffered sets on the unmutated documents; grown-buffer documents x capacities",
 "C07": "specification W; one unknown-id element at every position (tolerated); every marker width; every tolerance switch; buffered sets; a source pausing at a tag boundary",
 "C08": "specification W (a master nested in itself); completeness of the buffered parse up to an incomplete buffered master",
 "C09": "one rejected call at every position; payload class x explicit width; width rejections judged with the writer-produced content length",
 "C10": "a second alphabet (explicit 1-byte size fields, raw tag through write(), Fulls ending their own master) with at most one rejected call per history",
 "C11": "probes behind a tolerated unknown id, after a rejected End, after flush(), and behind a master that closed after the buffer grew",
 "C12": "buffered sets for every (document, cut); grown-buffer documents",
 "C13": "allow_errors called twice; oversize faults behind a recovery; global elements outside their depth range",
 "C14": "one buffered master id; 16-40-byte junk across read boundaries; tags larger than the buffer behind the junk; a size limit equal to the largest declared size",
 "C16": "every explicit size width; values read back through the real iterator under short reads",
 "C17": "staged sources with stalls and recoveries; the limit lowered between two calls; limits 0 and 1; masters whose size is too small",
 "C18": "8- and 5-byte ids at parent positions; reversed variant order; ambiguous name concatenations; placeholders with equal bounds",
 "C19": "a size-window sweep over 1-5 open masters; Fulls with Start/End children; Ends carrying options",
 "C20": "model-independent constraints on the known finding (shape of the deviation; schedules on which the source stays ahead of the parser must match outright); the calls after the first error",
}

NOT_YET = "check under construction in this session (see DESIGN.md section 4 for its design); not claimed until it runs green"

def main():
    checks = []
    for p in ALL:
        if p not in CHECKS:
            continue
        tech, text, note, ref = CHECKS[p]
        if p in EXTRA:
            text = text.rstrip() + " Added later (DESIGN.md 11.3): " + EXTRA[p] + "."
        checks.append({
            "property_id": p,
            "quick_cmd": "./run %s quick" % p,
            "thorough_cmd": "./run %s thorough" % p,
            "evidence_file": "/verif/evidence/%s.json" % p,
            "replay_cmd_template": "./run replay {path}",
            "engine": "verif-explorer",
            "level_claimed": {"category": "model_checking", "text": text, "design_ref": ref},
            "level_note": note,
            "technique": tech,
        })
    m = {
        "version": 1,
        "setup_cmd": "./run setup",
        "hooks": {
            "guard": "ebml_iterable_verif",
            "enable": "none needed: every check drives the public API of /repo (path dependency, rebuilt from the working tree by ./run)",
            "baseline_off_cmd": "cd /repo && cargo test --workspace --no-fail-fast --offline",
            "source_commits": [],
            "add_only": True,
        },
        "engines": [{
            "name": "verif-explorer",
            "path": "/verif/harness/verif",
            "serves_properties": [c["property_id"] for c in checks],
            "kind_free_text": "stateless bounded-exhaustive explorer of the real library (deterministic enumeration of inputs, schedules, configurations and call histories; 16 worker subprocesses; reference-model and differential oracles)",
        }],
        "checks": checks,
        "not_applicable": [{"property_id": p, "reason": NOT_YET} for p in ALL if p not in CHECKS],
        "notes": "Exit codes: 0 held (KNOWN-FINDING lines possible), 1 VIOLATION, 2 machinery failure. Known findings: /verif/KNOWN_FINDINGS.txt.",
    }
    json.dump(m, open("/verif/MANIFEST.json", "w"), indent=1)
    print("wrote MANIFEST.json with", len(checks), "checks")

main()
