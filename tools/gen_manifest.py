#!/usr/bin/env python3
"""Regenerates /verif/MANIFEST.json from the table below (kept next to the checks so it stays current)."""
import json

ALL = ["C%02d" % i for i in range(1, 21)]

# property -> (technique, level text, level note, design ref)
CHECKS = {
 "C15": ("exhaustive enumeration of a bounded input lattice of the real codec functions against a u128 reference codec",
         "Every u64 below 2^22 (thorough 2^28) and every i64 of magnitude below 2^21 (2^27), plus the +-2 lattice around every power of two up to 2^64, through every encoder width; every byte slice of length 0-3 and a first-byte-free family of lengths 4-9 through both decoders. Complete enumeration of that space, each call compared with RefCodec; no sampling.",
         "Trusted: RefCodec (u128 arithmetic, ~60 lines). Values between lattice points above the exhaustive range are not executed; non-first VINT bytes are assumed data-independent.",
         "DESIGN.md section 4, C15"),
 "C16": ("exhaustive enumeration of byte slices and of the writer's value lattice against a reference decoder",
         "Every slice of length 0-2 and the boundary-alphabet family of lengths 3-9 through the three payload decoders; every lattice value of u64/i64 and the float classes written by the real TagWriter and located in the output with RefCodec.",
         "Trusted: RefCodec big-endian / two's-complement / IEEE-754 decoders built on std conversions.",
         "DESIGN.md section 4, C16"),
}

NOT_YET = "check under construction in this session (see DESIGN.md section 4 for its design); not claimed until it runs green"

def main():
    checks = []
    for p in ALL:
        if p not in CHECKS:
            continue
        tech, text, note, ref = CHECKS[p]
        checks.append({
            "property_id": p,
            "quick_cmd": "./run %s quick" % p,
            "thorough_cmd": "./run %s thorough" % p,
            "evidence_file": "/verif/evidence/%s.json" % p,
            "replay_cmd_template": "./run replay {path}",
            "engine": "verif-explorer",
            "level_claimed": {"category": "model_checking", "text": text, "design_ref": ref},
            "level_note": note,
            "technique": tech,
        })
    m = {
        "version": 1,
        "setup_cmd": "./run setup",
        "hooks": {
            "guard": "ebml_iterable_verif",
            "enable": "none needed: every check drives the public API of /repo (path dependency, rebuilt from the working tree by ./run)",
            "baseline_off_cmd": "cd /repo && cargo test --workspace --no-fail-fast --offline",
            "source_commits": [],
            "add_only": True,
        },
        "engines": [{
            "name": "verif-explorer",
            "path": "/verif/harness/verif",
            "serves_properties": [c["property_id"] for c in checks],
            "kind_free_text": "stateless bounded-exhaustive explorer of the real library (deterministic enumeration of inputs, schedules, configurations and call histories; 16 worker subprocesses; reference-model and differential oracles)",
        }],
        "checks": checks,
        "not_applicable": [{"property_id": p, "reason": NOT_YET} for p in ALL if p not in CHECKS],
        "notes": "Exit codes: 0 held (KNOWN-FINDING lines possible), 1 VIOLATION, 2 machinery failure. Known findings: /verif/KNOWN_FINDINGS.txt.",
    }
    json.dump(m, open("/verif/MANIFEST.json", "w"), indent=1)
    print("wrote MANIFEST.json with", len(checks), "checks")

main()
