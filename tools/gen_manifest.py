#!/usr/bin/env python3
"""Regenerates /verif/MANIFEST.json from the table below (kept next to the checks so it stays current)."""
import json

ALL = ["C%02d" % i for i in range(1, 21)]

# property -> (technique, level text, level note, design ref)
CHECKS = {
 "C03": ("exhaustive enumeration of inputs x configurations on the real iterator; per-item reference decode of the input at the reported offset",
         "Every byte string over an 18-symbol role-colliding alphabet up to length 5 (thorough 6), every document of a bounded tree x encoding space and every single mutation of it, under 8 tolerance subsets x buffered sets x 2 capacities: each Ok item is compared with an independent RefCodec decode of the input at its reported offset (id, value, End/Full offsets, contiguity), including the children of Full items.",
         "Trusted: RefCodec header/payload decoders. A 0x00 id byte is mirrored as id 0 when unknown ids are tolerated (documented tolerant behaviour). Payload contents outside the representative classes are assumed data-independent.",
         "DESIGN.md section 4, C03"),
 "C04": ("exhaustive enumeration of read schedules (all 2^(len-1) compositions for small inputs), capacities and EOF-pause subsets against the slice parse (differential oracle)",
         "For every input up to 11 (thorough 13) bytes from Σ*, the document corpus, its truncations and corruptions: ALL compositions of the input into read() results x 14 capacities (0..len+1, default); longer inputs and two > 64 KiB documents with <= 2 short reads; with end-of-stream closing off, Ok(0) pauses at every subset of tag boundaries. Items, offsets and the first error must equal the slice parse.",
         "Trusted: the scripted Read implementations (30 lines). Sources that violate the Read contract are out of scope.",
         "DESIGN.md section 4, C04"),
 "C06": ("exhaustive enumeration of byte streams on the strict iterator; replay of the emitted items through an independent nesting/path/extent checker",
         "Every Σ string up to length 6 (thorough 7), every document of the tree x encoding space (known/unknown-size mixes, five master levels) and every single mutation incl. every mid-document suffix: the Ok items are replayed through NestingChecker (End matching incl. implied ancestors, reference path matcher, extents inside known-size ancestors via RefCodec, known-size End neither early nor late, all closed at clean end).",
         "Trusted: RefSpec table of V, ref_path_match (20 lines), RefCodec. Only specification V (derived by the real macro) is exercised here; other specifications are covered by C11.",
         "DESIGN.md section 4, C06"),
 "C07": ("exhaustive enumeration of trees x all 2^m unknown-size subsets, encoded by a reference encoder and by the real writer, parsed by the real strict iterator against the ground-truth flattening",
         "Every forest over V up to 5 (thorough 6) elements plus deep spines, every subset of masters encoded with unknown size (1- and 8-byte markers), through RefEncoder and through TagWriter::write_advanced(unknown): the strict parse must equal flatten(tree) with the reference offsets.",
         "Trusted: RefEncoder/flatten (tree -> bytes, layout, items). Documents with a global element directly after an unknown-size master are excluded as inherently ambiguous (the statement excludes them).",
         "DESIGN.md section 4, C07"),
 "C12": ("exhaustive enumeration of documents x every cut position x capacities x short-read schedules against expectations computed from the reference layout",
         "Every document of the tree x encoding space (one deviation: payload class, size width, non-minimal fields; known and unknown-size masters), every cut position 0..=len, capacities {default,16,17,64}, schedules with <= 1 short read: items must be exactly those complete in the prefix, then Ends+None on a tag boundary or UnexpectedEOF with exact tag_start / id / size / partial_data.",
         "Trusted: RefEncoder layout and the completion-position rule of DESIGN C12. partial_data None is accepted when zero payload bytes were available.",
         "DESIGN.md section 4, C12"),
 "C15": ("exhaustive enumeration of a bounded input lattice of the real codec functions against a u128 reference codec",
         "Every u64 below 2^22 (thorough 2^28) and every i64 of magnitude below 2^21 (2^27), plus the +-2 lattice around every power of two up to 2^64, through every encoder width; every byte slice of length 0-3 and a first-byte-free family of lengths 4-9 through both decoders. Complete enumeration of that space, each call compared with RefCodec; no sampling.",
         "Trusted: RefCodec (u128 arithmetic, ~60 lines). Values between lattice points above the exhaustive range are not executed; non-first VINT bytes are assumed data-independent.",
         "DESIGN.md section 4, C15"),
 "C16": ("exhaustive enumeration of byte slices and of the writer's value lattice against a reference decoder",
         "Every slice of length 0-2 and the boundary-alphabet family of lengths 3-9 through the three payload decoders; every lattice value of u64/i64 and the float classes written by the real TagWriter and located in the output with RefCodec.",
         "Trusted: RefCodec big-endian / two's-complement / IEEE-754 decoders built on std conversions.",
         "DESIGN.md section 4, C16"),
}

NOT_YET = "check under construction in this session (see DESIGN.md section 4 for its design); not claimed until it runs green"

def main():
    checks = []
    for p in ALL:
        if p not in CHECKS:
            continue
        tech, text, note, ref = CHECKS[p]
        checks.append({
            "property_id": p,
            "quick_cmd": "./run %s quick" % p,
            "thorough_cmd": "./run %s thorough" % p,
            "evidence_file": "/verif/evidence/%s.json" % p,
            "replay_cmd_template": "./run replay {path}",
            "engine": "verif-explorer",
            "level_claimed": {"category": "model_checking", "text": text, "design_ref": ref},
            "level_note": note,
            "technique": tech,
        })
    m = {
        "version": 1,
        "setup_cmd": "./run setup",
        "hooks": {
            "guard": "ebml_iterable_verif",
            "enable": "none needed: every check drives the public API of /repo (path dependency, rebuilt from the working tree by ./run)",
            "baseline_off_cmd": "cd /repo && cargo test --workspace --no-fail-fast --offline",
            "source_commits": [],
            "add_only": True,
        },
        "engines": [{
            "name": "verif-explorer",
            "path": "/verif/harness/verif",
            "serves_properties": [c["property_id"] for c in checks],
            "kind_free_text": "stateless bounded-exhaustive explorer of the real library (deterministic enumeration of inputs, schedules, configurations and call histories; 16 worker subprocesses; reference-model and differential oracles)",
        }],
        "checks": checks,
        "not_applicable": [{"property_id": p, "reason": NOT_YET} for p in ALL if p not in CHECKS],
        "notes": "Exit codes: 0 held (KNOWN-FINDING lines possible), 1 VIOLATION, 2 machinery failure. Known findings: /verif/KNOWN_FINDINGS.txt.",
    }
    json.dump(m, open("/verif/MANIFEST.json", "w"), indent=1)
    print("wrote MANIFEST.json with", len(checks), "checks")

main()
