#![allow(dead_code)]
#[path = "/repo/specification-derive/src/ast.rs"]
mod ast;
#[path = "/repo/specification-derive/src/attr.rs"]
mod attr;
#[path = "/repo/specification-derive/src/easy_ebml.rs"]
mod easy_ebml;
#[path = "/repo/specification-derive/src/pathing.rs"]
mod pathing;

use proc_macro2::TokenStream;
use std::str::FromStr;

/// `#[ebml_specification]` applied to `item` (an enum declaration as source text, without the attribute itself).
pub fn expand_attr(item: &str) -> Result<String, String> {
    let ts = TokenStream::from_str(item).map_err(|e| format!("lex: {}", e))?;
    let mut en: syn::ItemEnum = syn::parse2(ts).map_err(|e| format!("not an enum: {}", e))?;
    attr::impl_ebml_specification(&mut en).map(|t| t.to_string()).map_err(|e| e.to_string())
}

/// `easy_ebml!{ body }`: the lowering to the attribute form (source text of the produced item, incl. the attribute).
pub fn lower_easy(body: &str) -> Result<String, String> {
    let ts = TokenStream::from_str(body).map_err(|e| format!("lex: {}", e))?;
    let e: easy_ebml::EasyEBML = syn::parse2(ts).map_err(|e| format!("easy_ebml parse: {}", e))?;
    e.implement().map(|t| t.to_string()).map_err(|e| e.to_string())
}

/// Full expansion of `easy_ebml!{ body }`: lowering, then the attribute macro the lowering names.
pub fn expand_easy(body: &str) -> Result<String, String> {
    let lowered = lower_easy(body)?;
    let ts = TokenStream::from_str(&lowered).map_err(|e| format!("lex: {}", e))?;
    let mut en: syn::ItemEnum = syn::parse2(ts).map_err(|e| format!("lowering is not an enum: {}", e))?;
    // the lowering must carry exactly the attribute macro invocation as its first attribute
    let first = en.attrs.first().map(|a| quote::ToTokens::to_token_stream(&a.path).to_string().replace(' ', ""));
    if first.as_deref() != Some("ebml_iterable::specs::ebml_specification") {
        return Err(format!("lowering does not invoke the attribute macro first: {:?}", first));
    }
    en.attrs.remove(0);
    attr::impl_ebml_specification(&mut en).map(|t| t.to_string()).map_err(|e| e.to_string())
}
