#!/bin/bash
# Generates and compiles the C18 crate (declarations through the real proc-macro). Never fails the check by
# itself: a failing build of accepted declarations is a property violation, reported by the check from
# build_status.txt.
tier="${1:-quick}"
OUT=/verif/target/c18
GEN=/verif/harness/c18gen
mkdir -p "$OUT"
/verif/target/release/verif18 gen-c18 "$tier" > "$OUT/gen.log" 2>&1 || { cat "$OUT/gen.log"; echo "MACHINERY-FAILURE: gen-c18"; exit 2; }
cp /repo/Cargo.lock "$GEN/Cargo.lock"
cd "$GEN" || exit 2
bins=""
for i in $(seq 0 15); do bins="$bins --bin chunk$i"; done
CARGO_TARGET_DIR="$OUT" cargo build --offline $bins > "$OUT/build.log" 2>&1
echo $? > "$OUT/build_status.txt"
: > "$OUT/neg_results.txt"
while read -r k kind front; do
  [ -z "$k" ] && continue
  CARGO_TARGET_DIR="$OUT" cargo check --offline --bin "neg$k" > "$OUT/neg$k.log" 2>&1
  rc=$?
  # a must-fail program has to fail because of a compile error, not because cargo could not run
  if [ $rc -ne 0 ] && ! grep -q '^error' "$OUT/neg$k.log"; then echo "MACHINERY-FAILURE: neg$k failed without a compile error"; exit 2; fi
  echo "$k $rc $kind" >> "$OUT/neg_results.txt"
done < "$OUT/neg_list.txt"
exit 0
