//! C02 — reading, re-writing and reading again is a fixpoint.

use crate::ctx::Ctx;
use crate::docs::{self, DocParams};
use crate::gen::{self, SIGMA};
use crate::obs::{parse_slice, run_writer, Cfg, Dest, MaxSize, WCall, WOpt};
use crate::refmodel::{decode_header, hex, ref_encode, Kind, NItem, Node};
use crate::spec::*;
use crate::wmodel::calls_for;

fn fixpoint(ctx: &mut Ctx, rs: &RefSpec, bytes: &[u8], origin: &str, buffered: &[u64]) {
    fixpoint_cap(ctx, rs, bytes, origin, buffered, None, 0)
}

fn fixpoint_cap(ctx: &mut Ctx, rs: &RefSpec, bytes: &[u8], origin: &str, buffered: &[u64], cap: Option<usize>, allow: u8) {
    // premise: begins at a root element and the strict iterator reads it without error
    let Some(h) = decode_header(bytes) else { return };
    if !rs.is_root(h.id) {
        return;
    }
    let mut cfg = Cfg::strict().with_buffered(buffered).with_cap(cap).with_allow(allow);
    cfg.max_size = MaxSize::Limit(1 << 16);
    let first = parse_slice::<V>(bytes, &cfg);
    if !first.clean() {
        ctx.count("not_accepted_by_strict_reader(premise false)", 1);
        return;
    }
    let d = || format!("{} input={} buffered={:x?} cap={:?}", origin, hex(bytes), buffered, cap);
    if !ctx.enter(&d) {
        return;
    }
    ctx.transitions += first.items.len() as u64 + 1;
    let items = first.item_list();
    let calls: Vec<WCall> = items.iter().map(|i| WCall::Tag(i.clone(), WOpt::Default)).collect();
    let run = run_writer::<V>(&calls, Dest::default());
    ctx.transitions += calls.len() as u64 + 1;
    ctx.count("accepted_streams", 1);
    if let Some((i, e)) = run.results.iter().enumerate().find_map(|(i, r)| r.as_ref().err().map(|e| (i, e))) {
        ctx.violation(&format!("writer-rejects-what-the-reader-emitted/{}", e.kind()), &d, &format!("call #{} {} -> {:?} | items [{}]", i, calls[i].short(), e, items.iter().map(|x| x.short()).collect::<Vec<_>>().join(" ")));
    } else if let Err(e) = &run.fin {
        ctx.violation("into_inner-failed", &d, &format!("{:?}", e));
    } else {
        if run.out != bytes {
            ctx.nontrivial();
            ctx.count("re-encoded_bytes_differ(non-canonical input)", 1);
        }
        let second = parse_slice::<V>(&run.out, &cfg);
        ctx.transitions += second.items.len() as u64 + 1;
        ctx.outcome(&(items.len(), run.out.len() == bytes.len()));
        if !second.clean() {
            ctx.violation("second-read-fails", &d, &format!("re-encoded {} reads as {}", hex(&run.out), second.short()));
        } else if second.item_list() != items {
            ctx.violation("second-read-differs", &d, &format!("first [{}] | re-encoded {} | second [{}]", items.iter().map(|x| x.short()).collect::<Vec<_>>().join(" "), hex(&run.out), second.item_list().iter().map(|x| x.short()).collect::<Vec<_>>().join(" ")));
        }
    }
    ctx.validated += 1;
    ctx.leave();
}

pub fn run(ctx: &mut Ctx) {
    let rs = v_refspec();
    assert_spec_matches::<V>(&rs);
    let n = ctx.tier.pick(5, 6);
    ctx.meta("rule", "cases: byte streams that begin at a root element and that the strict iterator reads to the end without error, from (a) real writer outputs over the tree x option space, (b) RefEncoder outputs with non-canonical encodings (zero-length and zero/sign-padded integers, 4-byte floats, 2- and 8-byte size fields, unknown-size masters closed by a following element, an ancestor's end or end of input), (b2) size-boundary documents (124..128, 16379..16384 bytes) as reference encoding and as writer output, (b3) documents with a 20-45-byte payload inside open known-size masters read with capacities {0,16,17,24,32,default}, (c) every Σ string up to length n and every single mutation of the documents; each also with all masters buffered (Full items). Oracle: every emitted item, written back one write() per item, is accepted; into_inner succeeds; a second strict read yields the identical normalised item sequence. Non-trivial: streams whose re-encoding differs from the input bytes.");
    ctx.meta("bounds", &format!("Σ* length <= {}; documents <= {} elements with <= 2 encoding deviations", n, ctx.tier.pick(4, 5)));
    ctx.meta("assumptions", "64 KiB tag-size limit on the reader (mutated size fields)");
    for c in ["accepted_streams", "re-encoded_bytes_differ(non-canonical input)", "writer_outputs", "size_boundary_docs", "grown_buffer_docs"] {
        ctx.expect_nonzero(c);
    }
    let all_masters: Vec<u64> = rs.masters();
    // a payload larger than the initial capacity inside open known-size masters (both reads grow the buffer mid-document)
    for (i, doc) in docs::grown_buffer_docs().into_iter().enumerate() {
        if !ctx.mine(i as u64) {
            continue;
        }
        let (bytes, _) = ref_encode(&doc);
        let allow = if docs::doc_has_raw(&doc) { crate::obs::ALLOW_IDS } else { 0 };
        for cap in [Some(0usize), Some(16), Some(17), Some(24), Some(32), None] {
            ctx.count("grown_buffer_docs", 1);
            fixpoint_cap(ctx, &rs, &bytes, "grown-buffer-doc", &[], cap, allow);
            fixpoint_cap(ctx, &rs, &bytes, "grown-buffer-doc", &all_masters, cap, allow);
        }
    }
    // (b) RefEncoder outputs incl. non-canonical encodings, and (c) their mutations
    let p = DocParams { max_nodes: ctx.tier.pick(4, 5), globals: vec![ID_TAG, ID_VOID], exclude: vec![], unknown_subsets: true, devs: 2, payload_classes: true, big_payloads: false, noncanonical: true, width_devs: true, extras: true, all_widths: false };
    docs::for_each_doc(ctx, &rs, &p, &mut |ctx, doc| {
        let (bytes, lay) = ref_encode(doc);
        fixpoint(ctx, &rs, &bytes, "ref-encoded", &[]);
        fixpoint(ctx, &rs, &bytes, "ref-encoded", &all_masters);
        if crate::c03::doc_is_plain(doc) && gen::count_nodes(doc) <= 3 {
            let bounds: Vec<usize> = lay.iter().map(|l| l.tag_start).collect();
            docs::for_each_mutation(&bytes, &bounds, &SIGMA, &[docs::MutKind::Replace, docs::MutKind::Delete, docs::MutKind::Truncate], &mut |m, _, _| {
                fixpoint(ctx, &rs, m, "mutated", &[]);
                !ctx.should_stop()
            });
        }
        !ctx.should_stop()
    });
    // (a) writer outputs
    let pw = DocParams { max_nodes: ctx.tier.pick(4, 5), globals: vec![ID_TAG, ID_VOID], exclude: vec![], unknown_subsets: true, devs: 1, payload_classes: true, big_payloads: true, noncanonical: false, width_devs: true, extras: true, all_widths: true };
    docs::for_each_doc(ctx, &rs, &pw, &mut |ctx, doc| {
        let calls = calls_for(doc, &[], false);
        let run = run_writer::<V>(&calls, Dest::default());
        if run.results.iter().all(|r| r.is_ok()) && run.fin.is_ok() {
            ctx.count("writer_outputs", 1);
            fixpoint(ctx, &rs, &run.out, "writer-output", &[]);
        }
        !ctx.should_stop()
    });
    // size-boundary documents (payload / content of 124..128 and 16379..16384 bytes), written by the real writer
    // and encoded by the reference encoder
    for (i, doc) in docs::size_boundary_docs().into_iter().enumerate() {
        if !ctx.mine(i as u64) {
            continue;
        }
        let has_raw = { let mut r = false; crate::refmodel::visit(&doc, &mut |n, _| { if matches!(n.kind, Kind::RawLeaf(_)) { r = true; } }, 0); r };
        if has_raw || !crate::refmodel::encodable(&doc) {
            continue; // the strict reader does not accept unknown ids / the explicit width cannot hold the size
        }
        ctx.count("size_boundary_docs", 1);
        let (bytes, _) = ref_encode(&doc);
        fixpoint(ctx, &rs, &bytes, "ref-encoded-size-boundary", &[]);
        let calls = calls_for(&doc, &[], false);
        let run = run_writer::<V>(&calls, Dest::default());
        if run.results.iter().all(|r| r.is_ok()) && run.fin.is_ok() {
            fixpoint(ctx, &rs, &run.out, "writer-output-size-boundary", &[]);
            fixpoint(ctx, &rs, &run.out, "writer-output-size-boundary", &all_masters);
        }
    }
    // (c) Σ*
    let (shard, nshards) = (ctx.shard, ctx.nshards);
    gen::strings(&SIGMA, n, shard, nshards, &mut |s| {
        fixpoint(ctx, &rs, s, "sigma", &[]);
        if s.len() <= 4 {
            fixpoint(ctx, &rs, s, "sigma", &all_masters);
        }
        !ctx.should_stop()
    });
}
