//! C11 — hierarchy validation equals declared path semantics, in reader and writer alike, for all specifications.

use ebml_iterable::TagWriter;

use crate::ctx::Ctx;
use crate::gen;
use crate::obs::{apply_call, parse_slice, Cfg, Dest, NErr, Term, WCall, WErr, WOpt};
use crate::refmodel::{hex, id_bytes, vint_encode, NItem, Val};
use crate::spec::*;

type Bound = (Option<u64>, Option<u64>);

fn bounds() -> Vec<Bound> {
    let mut v = Vec::new();
    for min in [None, Some(0u64), Some(1), Some(2)] {
        for max in [None, Some(1u64), Some(2), Some(3)] {
            if min.unwrap_or(0) <= max.unwrap_or(u64::MAX) {
                v.push((min, max));
            }
        }
    }
    v
}

const MASTER_IDS_A: [u64; 4] = [0x91, 0x4092, 0x209393, 0x0194949494949494];
const MASTER_IDS_B: [u64; 4] = [0x10959595, 0x0896969696, 0x049797979797, 0x02989898989898];
const LEAF_IDS: [u64; 4] = [0xa1, 0xa2, 0xa3, 0xa4];
const TRAIL_LEAF_ID: u64 = 0xa5;
const GLOBAL_IDS: [u64; 2] = [0xb1, 0xb2];

/// One specification of the family R(σ).
fn make_spec(parents: &[Option<usize>], edge: &[Option<Bound>], trail: Option<Bound>, globals: &[Bound], ids: &[u64; 4]) -> RefSpec {
    let k = parents.len();
    let mut paths: Vec<Vec<PP>> = Vec::new();
    for i in 0..k {
        let mut p = match parents[i] {
            None => vec![],
            Some(j) => {
                let mut q = paths[j].clone();
                q.push(PP::Id(ids[j]));
                q
            }
        };
        if let Some((a, b)) = edge[i] {
            p.push(PP::Glob(a, b));
        }
        paths.push(p);
    }
    let mut elems = Vec::new();
    for i in 0..k {
        elems.push(ElemDef { name: format!("M{}", i), id: ids[i], ty: Ty::Master, path: paths[i].clone() });
        let mut lp = paths[i].clone();
        lp.push(PP::Id(ids[i]));
        elems.push(ElemDef { name: format!("m{}u", i), id: LEAF_IDS[i], ty: Ty::U, path: lp.clone() });
        if i == k - 1 {
            if let Some((a, b)) = trail {
                lp.push(PP::Glob(a, b));
                elems.push(ElemDef { name: "trail".into(), id: TRAIL_LEAF_ID, ty: Ty::U, path: lp });
            }
        }
    }
    for (gi, (a, b)) in globals.iter().enumerate() {
        elems.push(ElemDef { name: format!("g{}", gi), id: GLOBAL_IDS[gi], ty: Ty::B, path: vec![PP::Glob(*a, *b)] });
    }
    elems.push(ElemDef { name: "Crc32".into(), id: ID_CRC, ty: Ty::B, path: vec![PP::Glob(Some(1), None)] });
    elems.push(ElemDef { name: "Void".into(), id: ID_VOID, ty: Ty::B, path: vec![PP::Glob(None, None)] });
    RefSpec { elems }
}

fn spec_short(rs: &RefSpec) -> String {
    rs.elems
        .iter()
        .filter(|e| e.id != ID_CRC && e.id != ID_VOID)
        .map(|e| {
            let p: Vec<String> = e
                .path
                .iter()
                .map(|p| match p {
                    PP::Id(i) => rs.name(*i),
                    PP::Glob(a, b) => format!("({}-{})", a.map(|x| x.to_string()).unwrap_or_default(), b.map(|x| x.to_string()).unwrap_or_default()),
                })
                .collect();
            format!("{}{}{}", p.join("/"), if p.is_empty() { "" } else { "/" }, e.name)
        })
        .collect::<Vec<_>>()
        .join(", ")
}

fn probe_item(rs: &RefSpec, id: u64) -> NItem {
    match rs.ty(id).unwrap() {
        Ty::Master => NItem::Start(id),
        Ty::U => NItem::Leaf(id, Val::U(1)),
        Ty::B => NItem::Leaf(id, Val::B(vec![1])),
        t => NItem::Leaf(id, gen::default_val(t)),
    }
}

/// RefClose of DESIGN §2.6: chain entries (id, unknown?) -> how many masters remain open when x arrives
fn ref_remaining(rs: &RefSpec, chain: &[(u64, bool)], x: u64) -> usize {
    // contiguous run of unknown-size masters at the top of the stack
    let run_start = chain.iter().rposition(|c| !c.1).map(|i| i + 1).unwrap_or(0);
    for j in run_start..chain.len() {
        if rs.closes(chain[j].0, x) {
            return j;
        }
    }
    chain.len()
}

fn explore<T: SpecT>(ctx: &mut Ctx, rs: &RefSpec, depth: usize, reader_side: bool, label: &str) {
    let masters = rs.masters();
    let all_ids: Vec<u64> = rs.elems.iter().map(|e| e.id).collect();
    // reference-reachable chains, breadth first
    let mut frontier: Vec<Vec<u64>> = vec![vec![]];
    let mut level = 0;
    while !frontier.is_empty() && level <= depth {
        let mut next: Vec<Vec<u64>> = Vec::new();
        for chain in &frontier {
            if ctx.should_stop() {
                return;
            }
            for &probe in &all_ids {
                let want = rs.allowed(probe, chain);
                let is_master = rs.ty(probe) == Some(Ty::Master);
                let has_glob = gen::path_has_glob(rs.path(probe));
                // ---------------- writer side: chain all known-size / all unknown-size, probe default / unknown-size start
                let mut variants: Vec<(bool, WOpt, bool)> = vec![(false, WOpt::Default, false), (true, WOpt::Default, false)];
                if is_master {
                    variants.push((false, WOpt::Unknown, false));
                    variants.push((true, WOpt::UnknownDeprecated, false));
                }
                // the chain is what the ACCEPTED calls built: a rejected End in between (of a master that is not the
                // innermost open one) changes no decision
                let wrong_end = masters.iter().copied().find(|m| Some(m) != chain.last());
                if wrong_end.is_some() {
                    variants.push((false, WOpt::Default, true));
                    variants.push((true, WOpt::Default, true));
                }
                // flush() closes every open master: afterwards the chain is empty, whatever it was
                let flush_variants: Vec<bool> = if chain.is_empty() { vec![] } else { vec![false, true] };
                for chain_unknown in flush_variants {
                    let d = || format!("{} spec {{{}}} writer: open chain [{}]{} then flush() then {}", label, spec_short(rs), chain.iter().map(|i| rs.name(*i)).collect::<Vec<_>>().join("/"), if chain_unknown { " (unknown-size)" } else { "" }, rs.name(probe));
                    if !ctx.enter(&d) {
                        continue;
                    }
                    let mut w = TagWriter::new(Dest::default());
                    let mut setup_ok = true;
                    for m in chain {
                        if apply_call::<T>(&mut w, &WCall::Tag(NItem::Start(*m), if chain_unknown { WOpt::Unknown } else { WOpt::Default })).is_err() {
                            setup_ok = false;
                            break;
                        }
                    }
                    ctx.transitions += chain.len() as u64 + 2;
                    if setup_ok && apply_call::<T>(&mut w, &WCall::Flush).is_ok() {
                        ctx.count("writer_probe_after_flush", 1);
                        let want0 = rs.allowed(probe, &[]);
                        let r = apply_call::<T>(&mut w, &WCall::Tag(probe_item(rs, probe), WOpt::Default));
                        match (&r, want0) {
                            (Ok(()), true) | (Err(WErr::UnexpectedTag { .. }), false) => {}
                            (Ok(()), false) => ctx.violation("writer/after-flush-accepts-a-tag-that-needs-an-open-master", &d, "flush() closes all open masters"),
                            (Err(e), _) => ctx.violation("writer/after-flush-rejects-a-root-level-tag", &d, &format!("{:?}", e)),
                        }
                    }
                    ctx.validated += 1;
                    ctx.leave();
                }
                for (chain_unknown, popt, rejected_end_first) in variants {
                    let d = || format!("{} spec {{{}}} writer: open chain [{}]{}{} then {}{:?}", label, spec_short(rs), chain.iter().map(|i| rs.name(*i)).collect::<Vec<_>>().join("/"), if chain_unknown { " (unknown-size)" } else { "" }, if rejected_end_first { " then a REJECTED End of another master" } else { "" }, rs.name(probe), popt);
                    if !ctx.enter(&d) {
                        continue;
                    }
                    if has_glob && !chain.is_empty() {
                        ctx.nontrivial();
                    }
                    let mut w = TagWriter::new(Dest::default());
                    let mut setup_ok = true;
                    for m in chain {
                        let c = WCall::Tag(NItem::Start(*m), if chain_unknown { WOpt::Unknown } else { WOpt::Default });
                        if apply_call::<T>(&mut w, &c).is_err() {
                            setup_ok = false;
                            break;
                        }
                    }
                    ctx.transitions += chain.len() as u64 + 1;
                    if setup_ok && rejected_end_first {
                        ctx.transitions += 1;
                        ctx.count("writer_probe_after_a_rejected_end", 1);
                        if apply_call::<T>(&mut w, &WCall::Tag(NItem::End(wrong_end.unwrap()), WOpt::Default)).is_ok() {
                            ctx.violation("writer/accepts-end-of-a-master-that-is-not-innermost", &d, "");
                        }
                    }
                    if !setup_ok {
                        // the chain is reference-reachable: each Start was itself a probe one level up and is reported there
                        ctx.count("chain_setup_rejected(reported at the shorter chain)", 1);
                    } else {
                        let r = apply_call::<T>(&mut w, &WCall::Tag(probe_item(rs, probe), popt.clone()));
                        ctx.count(if want { "writer_probe_allowed" } else { "writer_probe_forbidden" }, 1);
                        ctx.outcome(&(want, r.is_ok()));
                        match (&r, want) {
                            (Ok(()), true) => {}
                            (Err(WErr::UnexpectedTag { id, .. }), false) => {
                                if *id != probe {
                                    ctx.violation("writer/rejection-carries-wrong-id", &d, &format!("{:?}", r));
                                }
                            }
                            (Ok(()), false) => ctx.violation(if has_glob { "writer/accepts-forbidden-tag(placeholder-path)" } else { "writer/accepts-forbidden-tag" }, &d, "reference: the open chain does not match the declared path"),
                            (Err(e), true) => ctx.violation(if has_glob { "writer/rejects-allowed-tag(placeholder-path)" } else { "writer/rejects-allowed-tag" }, &d, &format!("{:?}", e)),
                            (Err(e), false) => ctx.violation("writer/rejects-with-wrong-error-kind", &d, &format!("{:?}", e)),
                        }
                    }
                    ctx.validated += 1;
                    ctx.leave();
                }
                // ---------------- reader side
                if reader_side && !chain.is_empty() && !rs.is_global(chain[0]) {
                    // probe element bytes (reference encoder; masters empty)
                    let pnode = match rs.ty(probe).unwrap() {
                        Ty::Master => crate::refmodel::Node::master(probe, vec![]),
                        _ => match probe_item(rs, probe) {
                            NItem::Leaf(id, v) => crate::refmodel::Node::leaf(id, v),
                            _ => unreachable!(),
                        },
                    };
                    let (pb, _) = crate::refmodel::ref_encode(&[pnode]);
                    let k = chain.len();
                    // unknown-size subsets: none, all, each single one, and "all but the outermost"
                    let mut masks: Vec<u32> = vec![0, (1u32 << k) - 1];
                    for i in 0..k {
                        masks.push(1 << i);
                    }
                    if k >= 2 {
                        masks.push(((1u32 << k) - 1) & !1);
                        masks.push(((1u32 << k) - 1) & !(1 << (k - 1)));
                    }
                    masks.sort();
                    masks.dedup();
                    // an id outside the specification (tolerated): such an element is transparent for every hierarchy decision
                    let raw_id = [0xf2u64, 0xf3, 0xf4, 0xf5, 0xf6, 0xf7, 0xf8, 0xf9, 0xfa, 0xfb].into_iter().find(|i| rs.ty(*i).is_none()).expect("machinery: no free 1-byte id");
                    // a global Void of 20 bytes in front of the probe, read with a 16-byte initial capacity: the buffer
                    // grows while the chain is open; where the chain's known-size masters end must not move
                    let void_ok = rs.ty(ID_VOID) == Some(Ty::B) && rs.allowed(ID_VOID, chain);
                    for (mask, variant) in masks.iter().flat_map(|m| [(*m, 0u8), (*m, 1), (*m, 2)]) {
                        let with_raw = variant == 1;
                        let with_void = variant == 2;
                        if with_raw && mask == 0 && !has_glob {
                            continue;
                        }
                        if with_void && (!void_ok || mask != 0) {
                            continue;
                        }
                        // build from the inside out
                        let mut body = if with_raw {
                            let mut b = vec![raw_id as u8, 0x81, 0x42];
                            b.extend(&pb);
                            b
                        } else if with_void {
                            // innermost master = [Void(20)] and nothing else; the probe comes right behind its end
                            let mut v = vec![0xec, 0x94];
                            v.extend(std::iter::repeat(0x76u8).take(20));
                            v
                        } else {
                            pb.clone()
                        };
                        for i in (0..k).rev() {
                            let mut h = id_bytes(chain[i]);
                            if mask >> i & 1 == 1 {
                                h.push(0xff);
                            } else {
                                // room for exactly the body (known-size masters end right after the probe)
                                h.extend(vint_encode(body.len() as u64, 2).unwrap());
                            }
                            h.extend(body);
                            body = h;
                            if with_void && i == k - 1 {
                                body.extend(&pb);
                            }
                        }
                        let stream = body;
                        // simulate the reference closing rule along the chain itself, then for the probe
                        let mut open: Vec<(u64, bool)> = Vec::new();
                        let mut want_items: Vec<NItem> = Vec::new();
                        for (i, m) in chain.iter().enumerate() {
                            let keep = ref_remaining(rs, &open, *m);
                            for c in open[keep..].iter().rev() {
                                want_items.push(NItem::End(c.0));
                            }
                            open.truncate(keep);
                            want_items.push(NItem::Start(*m));
                            open.push((*m, mask >> i & 1 == 1));
                        }
                        if with_raw {
                            want_items.push(NItem::Raw(raw_id, vec![0x42]));
                        }
                        if with_void {
                            want_items.push(NItem::Leaf(ID_VOID, crate::refmodel::Val::B(vec![0x76; 20])));
                            // the innermost master's byte range is exhausted: it ends before the probe is judged
                            let last = open.pop().expect("machinery: empty chain");
                            want_items.push(NItem::End(last.0));
                        }
                        let k_open = open.len();
                        let keep = ref_remaining(rs, &open, probe);
                        let remaining: Vec<u64> = open[..keep].iter().map(|c| c.0).collect();
                        let want_r = rs.allowed(probe, &remaining);
                        let d = || format!("{} spec {{{}}} reader{}: stream {} = chain [{}] unknown-mask {:b} then {}", label, spec_short(rs), if with_raw { " (unknown ids tolerated, one in front of the probe)" } else if with_void { " (capacity 16; the innermost master holds a 20-byte Void and ends, the probe follows it)" } else { "" }, hex(&stream), chain.iter().map(|i| rs.name(*i)).collect::<Vec<_>>().join("/"), mask, rs.name(probe));
                        if !ctx.enter(&d) {
                            continue;
                        }
                        if has_glob {
                            ctx.nontrivial();
                        }
                        let obs = parse_slice::<T>(&stream, &if with_raw { Cfg::strict().with_allow(crate::obs::ALLOW_IDS) } else if with_void { Cfg::strict().with_cap(Some(16)) } else { Cfg::strict() });
                        if with_void {
                            ctx.count("reader_probe_after_the_buffer_grew", 1);
                        }
                        ctx.transitions += obs.items.len() as u64 + 1;
                        if with_raw {
                            ctx.count("reader_probe_behind_a_tolerated_unknown_id", 1);
                        }
                        ctx.count(if want_r { "reader_probe_allowed" } else { "reader_probe_forbidden" }, 1);
                        if keep < k_open {
                            ctx.count("reader_probe_closing_unknown_size_masters", 1);
                        }
                        // expected: the chain's items, Ends of the masters the probe closes (innermost first), then the probe or the error
                        let got: Vec<NItem> = obs.item_list();
                        if want_r {
                            for c in open[keep..].iter().rev() {
                                want_items.push(NItem::End(c.0));
                            }
                            want_items.push(probe_item(rs, probe));
                            let ok = got.len() >= want_items.len() && got[..want_items.len()] == want_items[..] && !matches!(obs.term, Term::Err(NErr::Hierarchy { .. }));
                            if !ok {
                                ctx.violation(if matches!(obs.term, Term::Err(NErr::Hierarchy { .. })) { if has_glob { "reader/rejects-allowed-element(placeholder-path)" } else { "reader/rejects-allowed-element" } } else { "reader/items-differ-for-allowed-element" }, &d, &format!("expected [{}] ... | observed {}", want_items.iter().map(|i| i.short()).collect::<Vec<_>>().join(" "), obs.short()));
                            }
                        } else {
                            let ok = got == want_items && matches!(&obs.term, Term::Err(NErr::Hierarchy { found, .. }) if *found == probe);
                            if !ok {
                                ctx.violation(if got.len() > want_items.len() { if has_glob { "reader/accepts-forbidden-element(placeholder-path)" } else { "reader/accepts-forbidden-element" } } else { "reader/forbidden-element-not-reported-as-hierarchy-error" }, &d, &format!("expected [{}] then HierarchyError({:x}) | observed {}", want_items.iter().map(|i| i.short()).collect::<Vec<_>>().join(" "), probe, obs.short()));
                            }
                        }
                        ctx.validated += 1;
                        ctx.leave();
                    }
                }
                if want && is_master && chain.len() < depth {
                    let mut c2 = chain.clone();
                    c2.push(probe);
                    next.push(c2);
                }
            }
        }
        let _ = &masters;
        frontier = next;
        level += 1;
    }
}

pub fn run(ctx: &mut Ctx) {
    let depth = ctx.tier.pick(5, 6);
    let max_placeholders = ctx.tier.pick(2, 3);
    ctx.meta("rule", "cases: (specification, reference-reachable chain of open masters, probe tag, side/variant). Specifications: every forest of <= 4 masters (33 parent vectors) with a leaf under each, placeholder edges (min-max), min in {none,0,1,2}, max in {none,1,2,3}, on master edges (intermediate position for everything below), on a trailing leaf and on <= 2 global leaves, at most the stated number of placeholders per specification, ids of every byte length 1..8, served through a runtime table-driven EbmlSpecification; plus the macro-derived V and W (W has placeholders in trailing and intermediate position). For every chain reachable in the REFERENCE transition relation up to the depth bound, every tag of the specification is probed: writer (chain known-size / unknown-size; probe written plainly, for masters also started with unknown size via both calls, plainly after a REJECTED End of a master that is not the innermost open one, and after flush(), which closes every open master, judged against the empty chain) and strict reader (byte stream = chain headers with none / all / each single / all-but-one unknown-size + probe; and the same streams with an element of an id outside the specification in front of the probe, unknown ids tolerated, which must change no decision; and, for all-known-size chains, with the innermost master holding just a 20-byte global Void and the probe right behind its end, read with a 16-byte initial capacity: the buffer grows while the chain is open, and the probe must be judged against the chain without that master). Oracle: accepted iff ref_path_match(path(tag), chain) (root elements iff empty chain); reader: judged against the chain remaining after the closings RefClose prescribes, with the Ends emitted first; rejections are UnexpectedTag / HierarchyError carrying the probe id. Non-trivial: probes whose path contains a placeholder under a non-empty chain.");
    ctx.meta("bounds", &format!("chain depth <= {}, <= {} placeholders per specification", depth, max_placeholders));
    ctx.meta("assumptions", "reader-side probes use chains whose outermost master is non-global (before the first non-global element the position in the document is unknown by the statement) || specifications are consistent tables (what the derive macro emits; C18 checks the macro against such tables)");
    for c in ["writer_probe_allowed", "writer_probe_forbidden", "reader_probe_allowed", "reader_probe_forbidden", "reader_probe_closing_unknown_size_masters", "reader_probe_behind_a_tolerated_unknown_id", "writer_probe_after_a_rejected_end", "reader_probe_after_the_buffer_grew", "writer_probe_after_flush", "specs"] {
        ctx.expect_nonzero(c);
    }
    // macro-derived specifications
    if ctx.mine(0) {
        let v = v_refspec();
        assert_spec_matches::<V>(&v);
        ctx.count("specs", 1);
        explore::<V>(ctx, &v, depth + 1, true, "V");
    }
    if ctx.mine(1) {
        let w = w_refspec();
        assert_spec_matches::<W>(&w);
        ctx.count("specs", 1);
        explore::<W>(ctx, &w, depth + 1, true, "W");
    }
    // the runtime family
    let bs = bounds();
    let mut spec_no = 2u64;
    for k in 1..=4usize {
        // parent vectors
        let mut pv: Vec<Vec<Option<usize>>> = vec![vec![None]];
        for i in 1..k {
            let mut n = Vec::new();
            for p in &pv {
                for par in std::iter::once(None).chain((0..i).map(Some)) {
                    let mut q = p.clone();
                    q.push(par);
                    n.push(q);
                }
            }
            pv = n;
        }
        for parents in &pv {
            // placeholder slots: k master edges, 1 trailing leaf, 2 global leaves; each slot: none or one of the bounds
            let nslots = k + 3;
            let slots: Vec<usize> = vec![bs.len() + 1; nslots];
            gen::deviations(&slots, max_placeholders, &mut |choice| {
                let mine = ctx.mine(spec_no);
                spec_no += 1;
                if !mine {
                    return true;
                }
                let edge: Vec<Option<Bound>> = (0..k).map(|i| if choice[i] == 0 { None } else { Some(bs[choice[i] - 1]) }).collect();
                let trail = if choice[k] == 0 { None } else { Some(bs[choice[k] - 1]) };
                let mut globals: Vec<Bound> = Vec::new();
                for g in 0..2 {
                    if choice[k + 1 + g] != 0 {
                        globals.push(bs[choice[k + 1 + g] - 1]);
                    }
                }
                // a zero maximum is rejected by the macro (never part of a derived specification)
                if edge.iter().flatten().chain(trail.iter()).chain(globals.iter()).any(|b| b.1 == Some(0)) {
                    return true;
                }
                let ids = if spec_no % 2 == 0 { &MASTER_IDS_A } else { &MASTER_IDS_B };
                let rs = make_spec(parents, &edge, trail, &globals, ids);
                install_refspec(&rs);
                ctx.count("specs", 1);
                explore::<RT>(ctx, &rs, depth, true, "R");
                !ctx.should_stop()
            });
        }
    }
}
