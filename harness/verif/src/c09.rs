//! C09 — writer output does not depend on how the same document is presented.

use crate::ctx::Ctx;
use crate::docs::{self, DocParams};
use crate::gen;
use crate::obs::{run_writer, Dest, WCall, WErr, WOpt};
use crate::refmodel::{hex, ref_encode, Kind, NItem, Node, SizeEnc};
use crate::spec::*;
use crate::wmodel::{calls_for, full_choices, match_output, width_holds};

/// Is the rejection of call `i` justified by an explicit width that cannot hold the size?
fn rejection_justified(doc: &[Node], calls: &[WCall], i: usize) -> bool {
    match &calls[i] {
        WCall::Tag(NItem::Leaf(_, v), WOpt::Width(w)) => !width_holds(*w, v.canonical_bytes().len() as u64),
        WCall::Tag(NItem::Raw(_, b), WOpt::Width(w)) => !width_holds(*w, b.len() as u64),
        WCall::Tag(NItem::End(id), _) | WCall::Tag(NItem::Full(id, _), _) => {
            // a master with an explicit width whose content does not fit. The content length is what the writer
            // itself produces for the children (its default size widths are its own business): the children are
            // written inside a scaffold of unknown-size masters and the bytes handed over are counted
            fn rec(nodes: &[Node], id: u64, chain: &mut Vec<u64>, just: &mut bool) {
                for n in nodes {
                    if let Kind::Master(ch) = &n.kind {
                        if n.id == id {
                            if let SizeEnc::Width(w) = n.size {
                                let len = match written_content_len(chain, n.id, ch) {
                                    Some(l) => l,
                                    None => ref_encode(ch).0.len() as u64,
                                };
                                if !width_holds(w, len) {
                                    *just = true;
                                }
                            }
                        }
                        chain.push(n.id);
                        rec(ch, id, chain, just);
                        chain.pop();
                    }
                }
            }
            let mut just = false;
            rec(doc, *id, &mut Vec::new(), &mut just);
            just || matches!(&calls[i], WCall::Tag(NItem::Full(..), WOpt::Unknown | WOpt::UnknownDeprecated))
        }
        _ => false,
    }
}

/// Bytes the real writer hands over for `children` when they are written below `chain` + `id`, all of those opened
/// with unknown size (nothing is held back, no size field of theirs depends on the content).
fn written_content_len(chain: &[u64], id: u64, children: &[Node]) -> Option<u64> {
    let mut calls: Vec<WCall> = chain.iter().chain(std::iter::once(&id)).map(|m| WCall::Tag(NItem::Start(*m), WOpt::Unknown)).collect();
    let scaffold = calls.len();
    calls.extend(calls_for(children, &[], false));
    let run = run_writer::<V>(&calls, Dest::default());
    if run.results.iter().any(|r| r.is_err()) {
        return None;
    }
    let head = run_writer::<V>(&calls[..scaffold], Dest::default());
    // into_inner() appends nothing for unknown-size masters
    Some((run.out.len() - head.out.len()) as u64)
}

fn first_rejection(results: &[Result<(), WErr>]) -> Option<(usize, &WErr)> {
    results.iter().enumerate().find_map(|(i, r)| r.as_ref().err().map(|e| (i, e)))
}

fn check_doc(ctx: &mut Ctx, rs: &RefSpec, doc: &Vec<Node>) {
    let d = || format!("doc=[{}]", docs::doc_short(rs, doc));
    if !ctx.enter(&d) {
        return;
    }
    let base_calls = calls_for(doc, &[], false);
    let base = run_writer::<V>(&base_calls, Dest::default());
    ctx.transitions += base_calls.len() as u64 + 1;
    ctx.outcome(&(base.out.len().min(300), base_calls.len(), base.results.iter().filter(|r| r.is_err()).count()));
    let mut done = false;
    if let Some((i, e)) = first_rejection(&base.results) {
        done = true;
        if matches!(e, WErr::Panic(_)) {
            ctx.violation("writer/panic", &d, &format!("call #{} {}: {:?}", i, base_calls[i].short(), e));
        } else if rejection_justified(doc, &base_calls, i) && matches!(e, WErr::TagSize(_)) {
            ctx.count("explicit_width_too_small_rejected", 1);
        } else {
            ctx.violation("valid-call-rejected", &d, &format!("call #{} {} -> {:?}", i, base_calls[i].short(), e));
        }
    } else if let Err(e) = &base.fin {
        done = true;
        ctx.violation("into_inner-failed", &d, &format!("{:?}", e));
    }
    if !done {
        // (iii) the output, walked with RefCodec guided by the tree
        match match_output(&base.out, doc) {
            Ok(used) if used == base.out.len() => {}
            Ok(used) => ctx.violation("output/trailing-bytes", &d, &format!("{} of {} bytes explained; output {}", used, base.out.len(), hex(&base.out))),
            Err(e) => {
                let key = if e.contains("reserved all-ones") { "output/size-written-as-reserved-all-ones" } else if e.contains("were requested") { "output/requested-width-not-honoured" } else { "output/does-not-match-tree" };
                ctx.violation(key, &d, &format!("{} | output {}", e, hex(&base.out)));
            }
        }
        // (i) every Full presentation
        let choices = full_choices(doc);
        for ch in choices.iter().filter(|c| !c.is_empty()) {
            let calls = calls_for(doc, ch, false);
            let r = run_writer::<V>(&calls, Dest::default());
            ctx.transitions += calls.len() as u64 + 1;
            ctx.count("full_presentations", 1);
            if calls.len() != base_calls.len() {
                ctx.nontrivial();
            }
            match first_rejection(&r.results) {
                Some((i, e)) => {
                    let full_unknown = matches!(&calls[i], WCall::Tag(NItem::Full(..), WOpt::Unknown));
                    if full_unknown && !e.is_io() && !matches!(e, WErr::Panic(_)) {
                        ctx.count("full_with_unknown_size_rejected", 1);
                    } else {
                        ctx.violation("full-presentation/rejected-although-start-end-presentation-accepted", &d, &format!("full roots {:?}: call #{} {} -> {:?}", ch, i, calls[i].short(), e));
                    }
                }
                None => {
                    if r.fin.is_err() || r.out != base.out {
                        let has_unknown_full = calls.iter().any(|c| matches!(c, WCall::Tag(NItem::Full(..), WOpt::Unknown)));
                        ctx.violation(if has_unknown_full { "full-presentation/unknown-size-full-bytes-differ" } else { "full-presentation/bytes-differ" }, &d, &format!("full roots {:?}: {} vs start/end {}", ch, hex(&r.out), hex(&base.out)));
                    }
                }
            }
        }
        // (ii) deprecated unknown-size call
        if base_calls.iter().any(|c| matches!(c, WCall::Tag(_, WOpt::Unknown))) {
            let calls = calls_for(doc, &[], true);
            let r = run_writer::<V>(&calls, Dest::default());
            ctx.transitions += calls.len() as u64 + 1;
            ctx.count("deprecated_unknown_presentations", 1);
            if first_rejection(&r.results).is_some() || r.fin.is_err() || r.out != base.out {
                ctx.violation("deprecated-unknown-size-call/differs-from-option", &d, &format!("results {:?} out {} vs {}", first_rejection(&r.results), hex(&r.out), hex(&base.out)));
            }
        }
        // (e) End items carrying the same option as their Start (an End writes no size field, so the option is moot)
        if base_calls.iter().any(|c| matches!(c, WCall::Tag(NItem::Start(_), o) if *o != WOpt::Default)) {
            let mut opts: Vec<WOpt> = Vec::new();
            let calls: Vec<WCall> = base_calls.iter().map(|c| match c {
                WCall::Tag(NItem::Start(id), o) => { opts.push(o.clone()); WCall::Tag(NItem::Start(*id), o.clone()) }
                WCall::Tag(NItem::End(id), _) => { let o = opts.pop().unwrap_or(WOpt::Default); WCall::Tag(NItem::End(*id), if o == WOpt::UnknownDeprecated { WOpt::Unknown } else { o }) }
                other => other.clone(),
            }).collect();
            let r = run_writer::<V>(&calls, Dest::default());
            ctx.transitions += calls.len() as u64 + 1;
            ctx.count("ends_carrying_options", 1);
            if first_rejection(&r.results).is_some() || r.fin.is_err() || r.out != base.out {
                let unk = calls.iter().any(|c| matches!(c, WCall::Tag(NItem::End(_), WOpt::Unknown)));
                ctx.violation(if unk { "end-with-unknown-size-option/output-differs" } else { "end-with-width-option/output-differs" }, &d, &format!("results {:?} out {} vs {}", first_rejection(&r.results), hex(&r.out), hex(&base.out)));
            }
        }
        // (f) the trailing Ends left to into_inner() (which ends every open master)
        {
            let mut calls = base_calls.clone();
            let mut dropped = 0;
            while matches!(calls.last(), Some(WCall::Tag(NItem::End(_), _))) {
                calls.pop();
                dropped += 1;
            }
            if dropped > 0 {
                let r = run_writer::<V>(&calls, Dest::default());
                ctx.transitions += calls.len() as u64 + 1;
                ctx.count("closed_by_into_inner", 1);
                if first_rejection(&r.results).is_some() || r.fin.is_err() || r.out != base.out {
                    ctx.violation("closed-by-into_inner/output-differs-from-explicit-ends", &d, &format!("{} trailing End calls left to into_inner: results {:?} fin {:?} out {} vs {}", dropped, first_rejection(&r.results), r.fin, hex(&r.out), hex(&base.out)));
                }
            }
        }
        // (g) the Start/children/End presentation with one call that the writer rejects put in at every position: the
        // rejected call is not part of the document, so the bytes are those of the plain presentation
        {
            let menu = [
                WCall::Tag(NItem::End(ID_P), WOpt::Default),
                WCall::Tag(NItem::End(ID_K), WOpt::Width(2)),
                WCall::Tag(NItem::Leaf(ID_S, crate::refmodel::Val::S("q".repeat(127))), WOpt::Width(1)),
            ];
            // (thorough: forests of <= 4 elements only; the 5-element x 2-deviation documents add nothing to this clause)
            let limit = if ctx.quick() || gen::count_nodes(doc) <= 4 { base_calls.len() + 1 } else { 0 };
            'outer: for pos in 0..limit {
                for f in &menu {
                    let mut calls = base_calls.clone();
                    calls.insert(pos, f.clone());
                    let r = run_writer::<V>(&calls, Dest::default());
                    ctx.transitions += calls.len() as u64 + 1;
                    if r.results[pos].is_ok() {
                        continue; // accepted here: not a rejected call
                    }
                    ctx.count("presentations_with_a_rejected_call", 1);
                    let others_ok = r.results.iter().enumerate().all(|(i, x)| i == pos || x.is_ok());
                    if !others_ok || r.fin.is_err() || r.out != base.out {
                        ctx.violation("rejected-call-in-between/output-differs", &d, &format!("{} (rejected: {:?}) inserted before call #{}: results {:?} fin {:?} out {} vs {}", f.short(), r.results[pos], pos, r.results.iter().enumerate().find(|(i, x)| *i != pos && x.is_err()), r.fin, hex(&r.out), hex(&base.out)));
                        break 'outer;
                    }
                }
            }
        }
        // (iv) short-write schedules of the destination
        let total = base.out.len();
        let mut policies: Vec<Vec<usize>> = Vec::new();
        if total <= 10 {
            gen::compositions(total, &mut |parts| {
                policies.push(parts.to_vec());
                true
            });
        }
        for k in 0..4usize {
            for m in [0usize, 1, 2, 3] {
                let mut p = vec![usize::MAX; k];
                p.push(m);
                policies.push(p.clone());
                p.push(1);
                p.push(0);
                policies.push(p);
            }
        }
        for pol in policies {
            let r = run_writer::<V>(&base_calls, Dest::with_policy(pol.clone()));
            ctx.transitions += base_calls.len() as u64 + 1;
            ctx.count("short_write_schedules", 1);
            if first_rejection(&r.results).is_some() || r.fin.is_err() || r.out != base.out {
                ctx.violation("short-writes/destination-content-differs", &d, &format!("policy {:?}: results {:?} fin {:?} out {} vs {}", &pol[..pol.len().min(8)], first_rejection(&r.results), r.fin, hex(&r.out), hex(&base.out)));
                break;
            }
        }
    }
    ctx.validated += 1;
    ctx.leave();
}

pub fn run(ctx: &mut Ctx) {
    let rs = v_refspec();
    crate::spec::assert_spec_matches::<V>(&rs);
    let p = DocParams {
        max_nodes: ctx.tier.pick(4, 5),
        globals: vec![ID_TAG, ID_VOID],
        exclude: vec![],
        unknown_subsets: true,
        devs: ctx.tier.pick(1, 2),
        payload_classes: true,
        big_payloads: true,
        noncanonical: false,
        width_devs: true,
        extras: true,
        all_widths: true,
    };
    ctx.meta("rule", "cases: (tree, per-element options); trees = forests over V up to the node bound + deep spines + Root[leaf] for every payload class of every data type x every explicit size width 1..8 + size-boundary documents (payload / master content of 124..128 and 16379..16384 bytes); options = every known/unknown choice of masters x deviations among size width 1..8 per master/leaf and payload class. For each case the real writer is driven with (a) Start/children/End, (b) EVERY way of collapsing masters into Full items, (c) the deprecated unknown-size call, (c2) Ends carrying the option of their Start, (c3) the trailing Ends left to into_inner(), (c4) one call that the writer rejects (End of a master that is not open, a 127-byte string with a 1-byte size field) put in at every position, (d) destinations that accept only a few bytes per write (all compositions for outputs <= 10 bytes, else <= 3 deviations, incl. Interrupted). Oracle: (b),(c),(c2),(c3),(c4),(d) byte-identical to (a); (a) walked with RefCodec guided by the tree: ids, payloads, order, size values == actual content lengths, requested width exact, unknown => all-ones, never the reserved all-ones for a known size; a width that cannot hold the size must be rejected with TagSizeError. Non-trivial: presentations whose call count differs from (a).");
    ctx.meta("bounds", &format!("forests <= {} elements, <= {} option deviations, all Full antichains", p.max_nodes, p.devs));
    ctx.meta("assumptions", "default (unrequested) size widths are not constrained beyond well-formedness || whether an explicit master width can hold its content is judged with the content length the writer itself produces for the children (written inside unknown-size scaffolding)");
    for c in ["closed_by_into_inner", "ends_carrying_options", "full_presentations", "deprecated_unknown_presentations", "short_write_schedules", "explicit_width_too_small_rejected", "size_boundary_docs", "presentations_with_a_rejected_call", "payload_class_x_width_docs"] {
        ctx.expect_nonzero(c);
    }
    docs::for_each_doc(ctx, &rs, &p, &mut |ctx, doc| {
        check_doc(ctx, &rs, doc);
        !ctx.should_stop()
    });
    // every payload class of every data type under every explicit size-field width (the deviation budget of the
    // main sweep allows a non-default payload OR a width on one leaf, not both)
    {
        let mut k = 0u64;
        for (id, ty) in [(ID_U, Ty::U), (ID_I, Ty::I), (ID_F, Ty::F), (ID_S, Ty::S), (ID_B, Ty::B)] {
            for v in gen::payload_classes(ty, true) {
                for w in 1..=8u8 {
                    let mine = ctx.mine(k);
                    k += 1;
                    if !mine {
                        continue;
                    }
                    let mut leaf = Node::leaf(id, v.clone());
                    leaf.size = SizeEnc::Width(w);
                    ctx.count("payload_class_x_width_docs", 1);
                    check_doc(ctx, &rs, &vec![Node::master(ID_ROOT, vec![leaf.clone()])]);
                    let mut unk = Node::master(ID_ROOT, vec![leaf]);
                    unk.size = SizeEnc::Unknown(8);
                    check_doc(ctx, &rs, &vec![unk]);
                }
            }
        }
    }
    for (i, doc) in docs::size_boundary_docs().into_iter().enumerate() {
        if !ctx.mine(i as u64) {
            continue;
        }
        ctx.count("size_boundary_docs", 1);
        check_doc(ctx, &rs, &doc);
        // and with every explicit width on the boundary element / its parent
        for w in 1..=8u8 {
            let mut d1 = doc.clone();
            d1[0].size = SizeEnc::Width(w);
            check_doc(ctx, &rs, &d1);
            let mut d2 = doc.clone();
            if let Kind::Master(ch) = &mut d2[0].kind {
                ch[0].size = SizeEnc::Width(w);
            }
            check_doc(ctx, &rs, &d2);
        }
        let mut d3 = doc.clone();
        d3[0].size = SizeEnc::Unknown(8);
        check_doc(ctx, &rs, &d3);
    }
}
