//! C04 — the parse result is independent of read chunking, buffer capacity and temporary EOF pauses.

use std::io::{self, Read};

use ebml_iterable::TagIterator;

use crate::ctx::Ctx;
use crate::docs::{self, DocParams, MutKind};
use crate::gen::{self, SIGMA};
use crate::obs::{budget_for, make_iter, parse_script, parse_slice, step_next, Cfg, MaxSize, Obs, Step, Term};
use crate::refmodel::{hex, ref_encode, Kind, NItem, Node, SizeEnc, Val};
use crate::spec::{v_refspec, RefSpec, ID_B, ID_K, ID_KU, ID_L, ID_LB, ID_M, ID_MU, ID_N, ID_ROOT, ID_TAG, ID_U, ID_VOID, V};

/// Source that reports a temporary end of file at each of the given positions: once the position is reached
/// every read() returns Ok(0) until the harness resumes it (which it does after the iterator returned None), the
/// way a growing file or a live stream behaves.
pub struct PauseScript<'a> {
    pub data: &'a [u8],
    pub pos: usize,
    pub pauses: &'a [usize],
    /// positions whose pause has been lifted
    pub resumed: Vec<usize>,
    pub zero_reads: usize,
    pub chunk: usize,
}

impl<'a> PauseScript<'a> {
    fn paused(&self) -> bool {
        self.pauses.contains(&self.pos) && !self.resumed.contains(&self.pos)
    }
    pub fn resume(&mut self) {
        let p = self.pos;
        if !self.resumed.contains(&p) {
            self.resumed.push(p);
        }
    }
}

impl<'a> Read for PauseScript<'a> {
    fn read(&mut self, buf: &mut [u8]) -> io::Result<usize> {
        if buf.is_empty() {
            return Ok(0);
        }
        if self.paused() {
            self.zero_reads += 1;
            return Ok(0);
        }
        let next_pause = self.pauses.iter().copied().filter(|p| *p > self.pos && !self.resumed.contains(p)).min().unwrap_or(self.data.len());
        let n = (next_pause - self.pos).min(buf.len()).min(self.chunk);
        buf[..n].copy_from_slice(&self.data[self.pos..self.pos + n]);
        self.pos += n;
        Ok(n)
    }
}

pub fn drive_pauses(bytes: &[u8], cfg: &Cfg, pauses: &[usize], chunk: usize) -> (Obs, usize) {
    let src = PauseScript { data: bytes, pos: 0, pauses, resumed: Vec::new(), zero_reads: 0, chunk };
    let mut it: TagIterator<PauseScript, V> = make_iter(src, cfg);
    let mut items = Vec::new();
    let mut resumed = 0usize;
    let budget = budget_for(bytes.len());
    loop {
        if items.len() >= budget {
            return (Obs { items, term: Term::Budget }, resumed);
        }
        match step_next(&mut it) {
            Err(p) => return (Obs { items, term: Term::Panic(p) }, resumed),
            Ok(None) => {
                // the stream "grows": lift the pause (if any) and ask again
                if it.get_ref().pos < bytes.len() && resumed <= pauses.len() + 2 {
                    it.get_mut().resume();
                    resumed += 1;
                    continue;
                }
                return (Obs { items, term: Term::Done }, resumed);
            }
            Ok(Some(Ok(x))) => items.push(x),
            Ok(Some(Err(e))) => return (Obs { items, term: Term::Err(e) }, resumed),
        }
    }
}

fn capacities(len: usize) -> Vec<Option<usize>> {
    let mut v: Vec<Option<usize>> = vec![None];
    for c in [0usize, 1, 2, 3, 4, 7, 8, 15, 16, 17, len.saturating_sub(1), len, len + 1] {
        if !v.contains(&Some(c)) {
            v.push(Some(c));
        }
    }
    v
}

struct Runner<'a> {
    rs: &'a RefSpec,
}

impl<'a> Runner<'a> {
    fn compare(&self, ctx: &mut Ctx, input: &[u8], cfg: &Cfg, steps: &[Step], reference: &Obs, origin: &str) {
        let d = || format!("{} input={} {} steps={:?}", origin, hex(input), cfg.short(), steps);
        if !ctx.enter(&d) {
            return;
        }
        let (obs, reads, _served) = parse_script::<V>(input, cfg, steps);
        ctx.transitions += obs.items.len() as u64 + 1;
        if steps.iter().any(|s| matches!(s, Step::Max(_))) {
            ctx.nontrivial();
        }
        if let Some(Step::Max(m)) = steps.first() {
            if *m < 2 {
                ctx.count("first_read_shorter_than_a_header", 1);
            }
        }
        if let Some(c) = cfg.cap {
            if c < 16 {
                ctx.count("capacity_below_16", 1);
            }
            if input.len() > c.max(16) {
                ctx.count("input_larger_than_capacity(compaction)", 1);
            }
        }
        let _ = reads;
        ctx.outcome(&(obs.items.len(), std::mem::discriminant(&obs.term)));
        if obs != *reference {
            let key = format!(
                "{}{}",
                match cfg.cap {
                    Some(c) if c < 16 => "capacity-below-16/",
                    _ => "",
                },
                if obs.items != reference.items { "items-differ-from-slice-parse" } else { "final-error-differs-from-slice-parse" }
            );
            ctx.violation(&key, &d, &format!("slice parse: {} | this schedule: {}", reference.short(), obs.short()));
        }
        ctx.validated += 1;
        ctx.leave();
    }

    /// all compositions x all capacities (input <= 13 bytes), else deviation-bounded schedules
    fn sweep(&self, ctx: &mut Ctx, input: &[u8], base: &Cfg, origin: &str, max_comp_len: usize, devs: usize) {
        let reference = parse_slice::<V>(input, base);
        for cap in capacities(input.len()) {
            let cfg = base.clone().with_cap(cap);
            if input.len() <= max_comp_len {
                gen::compositions(input.len(), &mut |parts| {
                    let steps: Vec<Step> = parts.iter().map(|p| Step::Max(*p)).collect();
                    self.compare(ctx, input, &cfg, &steps, &reference, origin);
                    !ctx.should_stop()
                });
            } else {
                self.deviation_schedules(ctx, input, &cfg, &reference, origin, devs, 6);
            }
            // every read short: uniform chunk sizes (reaches reads far into long inputs, e.g. in the middle of a
            // 16-byte header behind other elements)
            if input.len() > max_comp_len.min(6) {
                for c in [1usize, 2, 3, 5, 7, 11, 13] {
                    let steps = vec![Step::Max(c); input.len() / c + 2];
                    self.compare(ctx, input, &cfg, &steps, &reference, origin);
                }
            }
        }
    }

    fn deviation_schedules(&self, ctx: &mut Ctx, input: &[u8], cfg: &Cfg, reference: &Obs, origin: &str, devs: usize, reads: usize) {
        // 0 deviations
        self.compare(ctx, input, cfg, &[], reference, origin);
        let ms = [1usize, 2, 3, 7];
        if devs >= 1 {
            for k in 0..reads {
                for m in ms {
                    let mut s = vec![Step::Full; k];
                    s.push(Step::Max(m));
                    self.compare(ctx, input, cfg, &s, reference, origin);
                }
            }
        }
        if devs >= 2 {
            for k1 in 0..reads {
                for k2 in k1 + 1..reads {
                    for m1 in ms {
                        for m2 in ms {
                            let mut s = vec![Step::Full; k2 + 1];
                            s[k1] = Step::Max(m1);
                            s[k2] = Step::Max(m2);
                            self.compare(ctx, input, cfg, &s, reference, origin);
                        }
                    }
                }
            }
        }
    }

    /// temporary EOF at every subset of tag boundaries, end-of-stream closing disabled
    fn pauses(&self, ctx: &mut Ctx, input: &[u8], boundaries: &[usize], origin: &str) {
        let mut cfg = Cfg::strict();
        cfg.eof_end = false;
        let reference = parse_slice::<V>(input, &cfg);
        // the eof_end=false slice parse must be the eof_end=true parse minus trailing Ends
        let full = parse_slice::<V>(input, &Cfg::strict());
        if full.clean() && reference.clean() {
            let mut f = full.items.clone();
            while f.len() > reference.items.len() && f.last().map(|x| x.0.is_end()).unwrap_or(false) {
                f.pop();
            }
            if f != reference.items {
                let d = || format!("{} input={} eof_end=false vs true", origin, hex(input));
                if ctx.enter(&d) {
                    ctx.violation("eof-closing-off/differs-by-more-than-closing-ends", &d, &format!("on: {} | off: {}", full.short(), reference.short()));
                    ctx.leave();
                }
            }
        }
        let bs: Vec<usize> = boundaries.iter().copied().filter(|b| *b < input.len()).collect();
        let bs = if bs.len() > 8 { bs[..8].to_vec() } else { bs };
        for mask in 0u32..(1u32 << bs.len()) {
            let pauses: Vec<usize> = (0..bs.len()).filter(|i| mask >> i & 1 == 1).map(|i| bs[i]).collect();
            for (cap, chunk) in [(None, usize::MAX), (Some(16), usize::MAX), (None, 3), (Some(0), 1)] {
                let c = cfg.clone().with_cap(cap);
                let d = || format!("{} input={} pauses_at={:?} cap={:?} chunk={} eof_end=false", origin, hex(input), pauses, cap, chunk);
                if !ctx.enter(&d) {
                    continue;
                }
                let (obs, resumed) = drive_pauses(input, &c, &pauses, chunk);
                ctx.transitions += obs.items.len() as u64 + 1 + resumed as u64;
                if !pauses.is_empty() {
                    ctx.nontrivial();
                    ctx.count("temporary_eof_pauses", pauses.len() as u64);
                    ctx.count("pauses_seen_as_none_by_the_caller", resumed as u64);
                }
                if obs != reference {
                    let key = format!("{}eof-pause/{}", if cap == Some(0) { "capacity-below-16/" } else { "" }, if obs.items != reference.items { "items-differ-from-slice-parse" } else { "final-error-differs" });
                    ctx.violation(&key, &d, &format!("slice parse: {} | with pauses: {}", reference.short(), obs.short()));
                }
                ctx.validated += 1;
                ctx.leave();
            }
        }
    }
}

fn big_docs() -> Vec<(String, Vec<Node>)> {
    let mut v = Vec::new();
    // one payload larger than the default 64 KiB buffer (forces growth), followed by more elements
    v.push((
        "Root[B(70000) U M[MU]] (growth)".to_string(),
        vec![Node::master(ID_ROOT, vec![Node::leaf(ID_U, Val::U(7)), Node::leaf(ID_B, Val::B((0..70000u32).map(|i| (i % 251) as u8).collect())), Node::leaf(ID_U, Val::U(300)), Node::master(ID_M, vec![Node::leaf(ID_MU, Val::U(1))])])],
    ));
    // many small elements, more than 64 KiB in total (forces compaction in the middle of tags)
    let mut ch = Vec::new();
    for i in 0..23000u64 {
        ch.push(Node::leaf(ID_U, Val::U(i % 70000)));
    }
    let mut root = Node::master(ID_ROOT, ch);
    root.size = SizeEnc::Unknown(1);
    v.push(("Root/unk[23000 x U] (compaction)".to_string(), vec![root]));
    // long headers (8-byte size fields, 8-byte ids) at every alignment relative to the 64 KiB buffer boundary
    let mut ch = Vec::new();
    for i in 0..1500u64 {
        let mut lb = Node::leaf(ID_LB, Val::B(vec![(i % 251) as u8; (i % 5) as usize]));
        lb.size = SizeEnc::Width(8);
        let mut l = Node::master(ID_L, vec![lb]);
        l.size = SizeEnc::Width(8);
        let mut mu = Node::leaf(ID_MU, Val::U(i));
        mu.size = SizeEnc::Width(7);
        ch.push(Node::master(ID_M, vec![mu, Node::master(ID_N, vec![Node::master(ID_K, vec![l])])]));
    }
    let mut root = Node::master(ID_ROOT, ch);
    root.size = SizeEnc::Unknown(8);
    v.push(("Root/unk[1500 x M[MU/w7 N[K[L/w8[LB/w8]]]]] (long headers across the buffer boundary)".to_string(), vec![root]));
    v
}

pub fn run(ctx: &mut Ctx) {
    let rs = v_refspec();
    crate::spec::assert_spec_matches::<V>(&rs);
    let r = Runner { rs: &rs };
    let quick = ctx.quick();
    let sigma_n = ctx.tier.pick(4, 5);
    let max_comp_len = ctx.tier.pick(11, 13);
    ctx.meta("rule", "cases: (input, configuration, read schedule); inputs = Σ* up to length n, documents of T∘E, their truncations at every byte and single-byte corruptions, the documents again under size limits of 1 and 3 bytes (the size error fires mid-document), two documents > 64 KiB; for inputs up to the composition bound ALL 2^(len-1) compositions into read() results x 14 capacities (0,1,2,3,4,7,8,15,16,17,len-1,len,len+1,default); longer inputs: schedules with <= 2 short reads and uniform short reads (every read 1,2,3,5,7,11,13 bytes) x capacities; documents with 16-byte headers (8-byte ids, 8-byte size fields, known and unknown ids) and all their truncations; three documents > 64 KiB (large payload, many small elements, long headers across the buffer boundary); with end-of-stream closing off: a temporary end of file (the source answers Ok(0) until the caller has seen None, then resumes) at every subset of (up to 8) tag boundaries incl. before the first byte x {default, 16, chunk 3, capacity 0 with 1-byte reads}. Oracle: differential - items, offsets and the first error (all fields) equal the slice parse of the same bytes and configuration. Non-trivial: schedules with >= 1 short read or pause.");
    ctx.meta("bounds", &format!("Σ* length <= {}; all compositions for inputs <= {} bytes; <= 2 deviations beyond", sigma_n, max_comp_len));
    ctx.meta("assumptions", "Read implementations that return more than requested or lie about lengths are out of scope");
    for c in ["pauses_seen_as_none_by_the_caller", "long_header_documents", "first_read_shorter_than_a_header", "capacity_below_16", "input_larger_than_capacity(compaction)", "temporary_eof_pauses", "big_inputs(growth)", "documents_under_a_small_size_limit"] {
        ctx.expect_nonzero(c);
    }
    let strict = Cfg::strict();
    let mut tolerant = Cfg::strict().with_allow(7);
    tolerant.max_size = MaxSize::Limit(1 << 16);
    // Σ*
    let (shard, nshards) = (ctx.shard, ctx.nshards);
    gen::strings(&SIGMA, sigma_n, shard, nshards, &mut |s| {
        r.sweep(ctx, s, &strict, "sigma", max_comp_len, 2);
        if s.len() <= 3 || !quick {
            r.sweep(ctx, s, &tolerant, "sigma", max_comp_len, 2);
        }
        !ctx.should_stop()
    });
    // documents, truncations, corruptions
    let p = DocParams { max_nodes: ctx.tier.pick(3, 4), globals: vec![ID_TAG, ID_VOID], exclude: vec![], unknown_subsets: true, devs: ctx.tier.pick(0, 1), payload_classes: false, big_payloads: false, noncanonical: false, width_devs: true, extras: true, all_widths: false };
    let mut mstrict = Cfg::strict();
    mstrict.max_size = MaxSize::Limit(1 << 16);
    let all_masters: Vec<u64> = rs.masters();
    docs::for_each_doc(ctx, &rs, &p, &mut |ctx, doc| {
        let (bytes, lay) = ref_encode(doc);
        r.sweep(ctx, &bytes, &strict, "doc", max_comp_len, 2);
        r.sweep(ctx, &bytes, &strict.clone().with_buffered(&all_masters), "doc", max_comp_len.min(9), 1);
        // a small size limit: the size error (with its position, id and size) fires somewhere inside most documents
        for lim in [1usize, 3] {
            let mut lcfg = Cfg::strict();
            lcfg.max_size = MaxSize::Limit(lim);
            ctx.count("documents_under_a_small_size_limit", 1);
            r.sweep(ctx, &bytes, &lcfg, "doc", max_comp_len.min(10), 1);
        }
        let bounds: Vec<usize> = lay.iter().map(|l| l.tag_start).collect();
        r.pauses(ctx, &bytes, &bounds, "doc");
        if bytes.len() <= 16 || !quick {
            docs::for_each_mutation(&bytes, &bounds, &[0x00, 0x81, 0xff, 0x40], &[MutKind::Truncate, MutKind::Replace], &mut |m, _k, _pos| {
                r.sweep(ctx, m, &mstrict, "mut", max_comp_len.min(10), 1);
                !ctx.should_stop()
            });
        }
        !ctx.should_stop()
    });
    // headers longer than 12 bytes (8-byte ids with 8-byte size fields), known and unknown ids
    {
        use crate::refmodel::Kind;
        let mut docs_lh: Vec<(Vec<Node>, Cfg)> = Vec::new();
        let spine = |l_size: SizeEnc, lb_size: SizeEnc| {
            let mut lb = Node::leaf(ID_LB, Val::B(vec![1, 2, 3]));
            lb.size = lb_size;
            let mut l = Node::master(ID_L, vec![lb]);
            l.size = l_size;
            vec![Node::master(ID_ROOT, vec![Node::leaf(ID_U, Val::U(1)), Node::master(ID_M, vec![Node::master(ID_N, vec![Node::master(ID_K, vec![Node::leaf(ID_KU, Val::U(2)), l, Node::leaf(ID_KU, Val::U(3))])])])])]
        };
        docs_lh.push((spine(SizeEnc::Width(8), SizeEnc::Width(8)), strict.clone()));
        docs_lh.push((spine(SizeEnc::Unknown(8), SizeEnc::Min), strict.clone()));
        docs_lh.push((spine(SizeEnc::Width(5), SizeEnc::Width(7)), strict.clone()));
        let raw8 = Node { id: 0x0100000000000003, kind: Kind::RawLeaf(vec![9, 9, 9]), size: SizeEnc::Width(8) };
        let raw7 = Node { id: 0x02000000000005, kind: Kind::RawLeaf(vec![7]), size: SizeEnc::Width(6) };
        docs_lh.push((vec![Node::master(ID_ROOT, vec![Node::leaf(ID_U, Val::U(1)), raw8.clone(), Node::leaf(ID_U, Val::U(2)), raw7.clone()])], tolerant.clone()));
        docs_lh.push((vec![Node::master(ID_ROOT, vec![raw8, raw7])], strict.clone()));
        for (i, (doc, cfg)) in docs_lh.iter().enumerate() {
            if !ctx.mine(i as u64) {
                continue;
            }
            let (bytes, _) = ref_encode(doc);
            ctx.count("long_header_documents", 1);
            r.sweep(ctx, &bytes, cfg, "long-header-doc", max_comp_len, 2);
            for cut in 1..bytes.len() {
                r.sweep(ctx, &bytes[..cut], cfg, "long-header-doc-truncated", max_comp_len.min(8), 1);
            }
        }
    }
    // inputs larger than the default buffer
    for (i, (name, doc)) in big_docs().into_iter().enumerate() {
        let (bytes, _lay) = ref_encode(&doc);
        let reference = parse_slice::<V>(&bytes, &strict);
        for (j, cap) in [None, Some(16), Some(4096), Some(0), Some(65537)].into_iter().enumerate() {
            if !ctx.mine((i * 5 + j) as u64) {
                continue;
            }
            let cfg = strict.clone().with_cap(cap);
            // compare() prints the whole input in its descriptor; use a short origin and rely on the name
            let d = || format!("big input {} ({} bytes) cap={:?}", name, bytes.len(), cap);
            let ms = [1usize, 2, 3, 7, 4096, 65535];
            let mut schedules: Vec<Vec<Step>> = vec![vec![]];
            for k in 0..4usize {
                for m in ms {
                    let mut s = vec![Step::Full; k];
                    s.push(Step::Max(m));
                    schedules.push(s);
                }
            }
            // every read short
            schedules.push(vec![Step::Max(4099); 64]);
            schedules.push(vec![Step::Max(65535); 8]);
            for steps in schedules {
                let dd = || format!("{} steps={:?}", d(), &steps[..steps.len().min(6)]);
                if !ctx.enter(&dd) {
                    continue;
                }
                let (obs, _, _) = parse_script::<V>(&bytes, &cfg, &steps);
                ctx.transitions += obs.items.len() as u64 + 1;
                ctx.count("big_inputs(growth)", 1);
                ctx.nontrivial();
                if obs != reference {
                    let common = obs.items.iter().zip(reference.items.iter()).take_while(|(a, b)| a == b).count();
                    ctx.violation("big-input/differs-from-slice-parse", &dd, &format!("first difference at item #{}: slice {:?} vs {:?}; terms {} vs {}", common, reference.items.get(common).map(|x| x.0.short()), obs.items.get(common).map(|x| x.0.short()), reference.term.short(), obs.term.short()));
                }
                ctx.validated += 1;
                ctx.leave();
            }
        }
    }
}
