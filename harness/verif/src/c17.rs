//! C17 — memory use is bounded by the configured tag size limit, whatever the input claims.

use ebml_iterable::TagIterator;

use crate::alloc;
use crate::ctx::Ctx;
use crate::obs::{drive, make_iter, Cfg, MaxSize, NErr, Obs, Script, Term};
use crate::refmodel::{hex, id_bytes, vint_encode, NItem};
use crate::spec::*;

#[derive(Clone, Copy, Debug, PartialEq, Eq)]
enum Context {
    Root,
    InKnownSmall,
    InKnownRoomy,
    InUnknown,
}

struct Measured {
    obs: Obs,
    growth: usize,
    max_req: usize,
    pulled: usize,
}

fn measure(input: &[u8], cfg: &Cfg) -> Measured {
    let m = alloc::mark();
    let src = Script::new(input, &[]);
    let mut it: TagIterator<Script, V> = make_iter(src, cfg);
    let obs = drive(&mut it, 64);
    let growth = alloc::peak_since(m);
    let max_req = alloc::max_request();
    let pulled = it.get_ref().pos;
    Measured { obs, growth, max_req, pulled }
}

fn build(ctx_kind: Context, id: u64, size: u64, width: usize, payload: &[u8], tail: usize) -> Option<(Vec<u8>, usize)> {
    let sf = vint_encode(size, width)?;
    if size == (1u64 << (7 * width)) - 1 {
        return None; // all-ones = unknown size: not a declared size
    }
    let mut el = id_bytes(id);
    el.extend(sf);
    let header_len = el.len();
    el.extend_from_slice(payload);
    let mut out = Vec::new();
    match ctx_kind {
        Context::Root => {}
        Context::InKnownSmall => {
            out.push(0x81);
            out.push(0x80 | 40);
        }
        Context::InKnownRoomy => {
            out.push(0x81);
            let total = (header_len as u64).checked_add(size)?;
            out.extend(vint_encode(total, 8)?);
            if total == (1u64 << 56) - 1 {
                return None;
            }
        }
        Context::InUnknown => {
            out.push(0x81);
            out.push(0xff);
        }
    }
    let el_start = out.len();
    out.extend(el);
    out.extend(std::iter::repeat(0u8).take(tail));
    Some((out, el_start))
}

/// Parse a long stream without keeping the items; returns (items, clean end, largest read() request, peak heap growth).
fn long_stream(input: &[u8], cfg: &Cfg) -> (usize, bool, usize, usize) {
    let m = alloc::mark();
    let src = Script::new(input, &[]);
    let mut it: TagIterator<Script, V> = make_iter(src, cfg);
    let mut n = 0usize;
    let mut clean = false;
    for _ in 0..(2 * input.len() + 64) {
        match crate::obs::step_next(&mut it) {
            Ok(Some(Ok(_))) => n += 1,
            Ok(None) => {
                clean = true;
                break;
            }
            _ => break,
        }
    }
    let growth = alloc::peak_since(m);
    (n, clean, it.get_ref().max_request, growth)
}

/// A source that delivers its data in stages: when a stage is used up it answers with a stall (Ok(0), or an I/O
/// error) until the harness calls `resume()`, then goes on with the next stage (a growing file, a socket).
struct Staged {
    stages: Vec<Vec<u8>>,
    stage: usize,
    pos: usize,
    fail_with_error: bool,
    stalled: bool,
}

impl Staged {
    fn resume(&mut self) {
        if self.stalled {
            self.stalled = false;
            self.stage += 1;
            self.pos = 0;
        }
    }
}

impl std::io::Read for Staged {
    fn read(&mut self, buf: &mut [u8]) -> std::io::Result<usize> {
        if buf.is_empty() {
            return Ok(0);
        }
        if self.stage >= self.stages.len() {
            return Ok(0);
        }
        let st = &self.stages[self.stage];
        if self.pos >= st.len() {
            if self.stage + 1 >= self.stages.len() {
                return Ok(0);
            }
            self.stalled = true;
            return if self.fail_with_error { Err(std::io::Error::new(std::io::ErrorKind::Other, "injected-stall")) } else { Ok(0) };
        }
        let n = (st.len() - self.pos).min(buf.len());
        buf[..n].copy_from_slice(&st[self.pos..self.pos + n]);
        self.pos += n;
        Ok(n)
    }
}

/// The limit stays in force across errors, failed and successful recoveries and source stalls.
fn histories(ctx: &mut Ctx) {
    let firsts: Vec<(&str, Vec<u8>)> = vec![
        ("junk only", vec![]),
        ("B then junk", vec![0x88, 0x82, 1, 2]),
        ("Root(unknown)[U] then junk", vec![0x81, 0xff, 0x82, 0x81, 7]),
        ("Root(known size)[U] then junk", vec![0x81, 0x83, 0x82, 0x81, 7]),
        // the declared size is too small for the content: recovery walks over the declared end of the open master
        ("Root(known size 2, too small)[U U] then junk", vec![0x81, 0x82, 0x82, 0x81, 7, 0x82, 0x81, 8]),
        ("Root(known size 1)[M(known size 1)[MU MU]] U then junk", vec![0x81, 0x81, 0x8d, 0x81, 0x8e, 0x81, 1, 0x8e, 0x81, 2, 0x82, 0x81, 3]),
    ];
    let junks: Vec<Vec<u8>> = vec![vec![], vec![0x00], vec![0x00, 0x02, 0x05]];
    let mut k = 0u64;
    for (fname, first) in &firsts {
        for junk in &junks {
            for fail_with_error in [false, true] {
                for (el_id, el_name) in [(ID_B, "B"), (ID_S, "S"), (0xf2u64, "unknown-id")] {
                    for s in [1001u64, 1 << 26, 1 << 40] {
                        for lead in [0usize, 2] {
                            for (lim, m) in [(MaxSize::Limit(5), 5usize), (MaxSize::Limit(1000), 1000)] {
                                for cap in [None, Some(16usize)] {
                                    for eof_end in [true, false] {
                                        let mine = ctx.mine(k);
                                        k += 1;
                                        if !mine {
                                            continue;
                                        }
                                        let mut st1 = first.clone();
                                        st1.extend_from_slice(junk);
                                        let mut st2: Vec<u8> = vec![0x00; lead];
                                        let el_start_in_2 = st2.len();
                                        st2.extend(id_bytes(el_id));
                                        st2.extend(vint_encode(s, 8).unwrap());
                                        st2.extend_from_slice(&[0x41; 4]);
                                        let allow = if el_id == 0xf2 { crate::obs::ALLOW_IDS } else { 0 };
                                        let cfg = Cfg { allow, buffered: vec![], cap, max_size: lim, eof_end };
                                        let d = || format!("history: stage 1 = {} + junk {} ; stall = {} ; stage 2 = {} junk bytes + {} declaring S={} ; {}", fname, hex(junk), if fail_with_error { "read error" } else { "Ok(0)" }, lead, el_name, s, cfg.short());
                                        if !ctx.enter(&d) {
                                            continue;
                                        }
                                        ctx.nontrivial();
                                        ctx.count("histories_with_recovery_and_stalls", 1);
                                        let capn = cap.unwrap_or(65536).max(16);
                                        let bound = 8 * m.max(capn) + (64 << 10);
                                        let el_abs = st1.len() + el_start_in_2;
                                        let mk = alloc::mark();
                                        let src = Staged { stages: vec![st1.clone(), st2.clone()], stage: 0, pos: 0, fail_with_error, stalled: false };
                                        let mut it: TagIterator<Staged, V> = make_iter(src, &cfg);
                                        let mut log: Vec<String> = Vec::new();
                                        let mut failed_recoveries = 0;
                                        let mut size_error = false;
                                        let mut emitted_el = false;
                                        let mut panic: Option<String> = None;
                                        for _ in 0..24 {
                                            ctx.transitions += 1;
                                            match crate::obs::step_next(&mut it) {
                                                Err(p) => {
                                                    panic = Some(p);
                                                    break;
                                                }
                                                Ok(None) => {
                                                    log.push("None".into());
                                                    if it.get_ref().stalled {
                                                        it.get_mut().resume();
                                                    } else if it.get_ref().stage + 1 >= it.get_ref().stages.len() {
                                                        break;
                                                    }
                                                }
                                                Ok(Some(Ok((item, off)))) => {
                                                    if off == el_abs && item.id() == el_id && !item.is_end() {
                                                        emitted_el = true;
                                                    }
                                                    log.push(format!("{}@{}", item.short(), off));
                                                }
                                                Ok(Some(Err(e))) => {
                                                    log.push(format!("Err({})", e.short()));
                                                    if let NErr::InvalidTagSize { pos, id, .. } = &e {
                                                        if *pos == el_abs && *id == el_id {
                                                            size_error = true;
                                                        }
                                                        break;
                                                    }
                                                    ctx.transitions += 1;
                                                    match std::panic::catch_unwind(std::panic::AssertUnwindSafe(|| it.try_recover())) {
                                                        Err(p) => {
                                                            panic = Some(crate::obs::panic_msg(p));
                                                            break;
                                                        }
                                                        Ok(Ok(())) => log.push("recover:Ok".into()),
                                                        Ok(Err(e)) => {
                                                            failed_recoveries += 1;
                                                            log.push(format!("recover:Err({})", crate::obs::norm_err(&e).short()));
                                                            if it.get_ref().stalled {
                                                                it.get_mut().resume();
                                                            } else {
                                                                break;
                                                            }
                                                        }
                                                    }
                                                }
                                            }
                                        }
                                        let growth = alloc::peak_since(mk);
                                        if failed_recoveries > 0 {
                                            ctx.count("histories_with_a_failed_recovery_before_the_oversized_element", 1);
                                        }
                                        ctx.outcome(&(size_error, failed_recoveries, log.len()));
                                        if let Some(p) = panic {
                                            ctx.violation("history/panic", &d, &format!("{} | calls: {}", p, log.join(" ")));
                                        } else if growth > bound {
                                            ctx.violation("history/allocation-exceeds-bound", &d, &format!("peak heap growth {} > 8*max(M,capacity)+64KiB = {} (largest single request {}) | calls: {}", growth, bound, alloc::max_request(), log.join(" ")));
                                        } else if emitted_el {
                                            ctx.violation("history/over-limit-element-emitted", &d, &format!("calls: {}", log.join(" ")));
                                        } else if size_error {
                                            ctx.count("histories_ending_in_the_size_error", 1);
                                            if failed_recoveries > 0 {
                                                ctx.count("size_error_after_a_failed_recovery", 1);
                                            }
                                        }
                                        ctx.validated += 1;
                                        ctx.leave();
                                    }
                                }
                            }
                        }
                    }
                }
            }
        }
    }
}

/// The limit that counts is the one in force when an element is reached: lowering it between two next() calls applies
/// to everything read afterwards, also inside masters that were opened under the earlier limit.
fn reconfiguration(ctx: &mut Ctx) {
    let mut k = 0u64;
    for outer_known in [true, false] {
        for old in [MaxSize::Default, MaxSize::Unlimited, MaxSize::Limit(1 << 30)] {
            for m in [5usize, 1000] {
                for (el_id, el_name) in [(ID_B, "B"), (ID_S, "S"), (ID_M, "M(master)"), (0xf2u64, "unknown-id")] {
                    for s in [m as u64 + 1, 1 << 26] {
                        for allow in [0u8, crate::obs::ALLOW_OVERSIZED, crate::obs::ALLOW_IDS | crate::obs::ALLOW_HIER] {
                            for cap in [None, Some(16usize)] {
                                let mine = ctx.mine(k);
                                k += 1;
                                if !mine || (el_id == 0xf2 && allow & crate::obs::ALLOW_IDS == 0) {
                                    continue;
                                }
                                let mut el = id_bytes(el_id);
                                el.extend(vint_encode(s, 8).unwrap());
                                el.extend_from_slice(&[0x41; 4]);
                                let mut input = vec![0x81u8];
                                if outer_known {
                                    input.extend(vint_encode(el.len() as u64 - 4 + s, 8).unwrap());
                                } else {
                                    input.push(0xff);
                                }
                                let el_start = input.len();
                                input.extend(&el);
                                let cfg = Cfg { allow, buffered: vec![], cap, max_size: old, eof_end: true };
                                let d = || format!("reconfiguration: Root({}) opened under {:?}, then set_max_allowable_tag_size(Some({})), then {} declaring S={} ; {}", if outer_known { "known size, roomy" } else { "unknown size" }, old, m, el_name, s, cfg.short());
                                if !ctx.enter(&d) {
                                    continue;
                                }
                                ctx.nontrivial();
                                ctx.count("limit_lowered_between_calls", 1);
                                let capn = cap.unwrap_or(65536).max(16);
                                let bound = 8 * m.max(capn) + (64 << 10);
                                let mk = alloc::mark();
                                let src = Script::new(&input, &[]);
                                let mut it: TagIterator<Script, V> = make_iter(src, &cfg);
                                let first = crate::obs::step_next(&mut it);
                                let mut log = vec![format!("{:?}", first.as_ref().map(|o| o.as_ref().map(|r| r.as_ref().map(|x| x.0.short()).map_err(|e| e.short()))))];
                                it.set_max_allowable_tag_size(Some(m));
                                let mut emitted_el = false;
                                let mut rejected = false;
                                let mut panic = None;
                                for _ in 0..6 {
                                    ctx.transitions += 1;
                                    match crate::obs::step_next(&mut it) {
                                        Err(p) => {
                                            panic = Some(p);
                                            break;
                                        }
                                        Ok(None) => break,
                                        Ok(Some(Ok((item, off)))) => {
                                            if off == el_start && item.id() == el_id && !item.is_end() {
                                                emitted_el = true;
                                            }
                                            log.push(format!("{}@{}", item.short(), off));
                                        }
                                        Ok(Some(Err(e))) => {
                                            log.push(format!("Err({})", e.short()));
                                            rejected = !matches!(e, NErr::Eof { .. } | NErr::Read { .. });
                                            break;
                                        }
                                    }
                                }
                                let growth = alloc::peak_since(mk);
                                ctx.outcome(&(rejected, emitted_el, log.len()));
                                if let Some(p) = panic {
                                    ctx.violation("reconfiguration/panic", &d, &p);
                                } else if !matches!(first, Ok(Some(Ok((NItem::Start(ID_ROOT), 0))))) {
                                    ctx.violation("reconfiguration/outer-master-not-opened", &d, &log.join(" "));
                                } else if growth > bound {
                                    ctx.violation("reconfiguration/allocation-exceeds-bound", &d, &format!("peak heap growth {} > 8*max(M,capacity)+64KiB = {} (largest single request {}) | calls: {}", growth, bound, alloc::max_request(), log.join(" ")));
                                } else if emitted_el || !rejected {
                                    ctx.violation("reconfiguration/over-limit-element-not-rejected", &d, &format!("calls: {}", log.join(" ")));
                                }
                                ctx.validated += 1;
                                ctx.leave();
                            }
                        }
                    }
                }
            }
        }
    }
}

pub fn run(ctx: &mut Ctx) {
    alloc::REFUSE_ABOVE.store(256 << 20, std::sync::atomic::Ordering::Relaxed);
    let quick = ctx.quick();
    ctx.meta("rule", "cases: header-only streams: an element of every type (U, I, F, S, B, master, global Void, unknown id) at root, inside a small known-size master, inside a known-size master with room, inside an unknown-size master, declaring S in {0,1,M-1,M,M+1,2M,2^20,2^30,2^40,2^56-2} in every VINT width that can hold it, payload absent / 3 bytes present / followed by a 200 KB tail, x limit M in {0,1,5,16,1000,2^20,default} x capacity {16,4096,default} x 8 tolerance subsets; a counting global allocator measures peak heap growth around the whole iteration. Oracle: S > M => a CorruptedFileData error (the size error unless an earlier-ordered check fires) with nothing emitted for the element, peak growth <= growth of the same stream with S:=0 plus 4 KiB (independent of S), bytes pulled from the source <= buffer capacity + header; S <= M with the payload missing => growth <= 8*max(S,capacity)+64 KiB; never a panic. Long streams of 10-30 thousand elements of varying small sizes: the largest slice ever offered to read() <= 4*max(capacity, largest payload). Call histories over a source that delivers its data in two stages with a stall (Ok(0) or a read error) in between: stage 1 = nothing / an element / an open master / masters whose declared size is too small for their content, then junk; next() until the error, try_recover() (which fails at the end of the available data, or succeeds), resume, stage 2 = 0 or 2 junk bytes and an element declaring S in {1001, 2^26, 2^40} > M: peak growth <= 8*max(M,capacity)+64 KiB over the whole history, the element is never emitted. Reconfiguration: a known-size (roomy) or unknown-size master opened under the default / no / a 1 GiB limit, then set_max_allowable_tag_size(Some(M)) between two next() calls, then a child declaring S in {M+1, 2^26}: rejected with a corruption error, never emitted, growth bounded by the NEW limit. A single allocation request above 256 MiB aborts the worker and is reported. Non-trivial: S > capacity.");
    ctx.meta("bounds", "sizes, widths, limits, capacities and contexts as listed; within-limit sizes above 2^20 are not executed (they would really allocate)");
    ctx.meta("assumptions", "no buffered masters (the statement excludes them) || allocator accounting counts requested bytes, not allocator overhead");
    for c in ["over_limit_cases", "within_limit_payload_missing", "over_limit_with_tail", "long_streams", "histories_with_recovery_and_stalls", "histories_with_a_failed_recovery_before_the_oversized_element", "histories_ending_in_the_size_error", "size_error_after_a_failed_recovery", "limit_lowered_between_calls"] {
        ctx.expect_nonzero(c);
    }
    let ids: Vec<(u64, &str)> = vec![(ID_U, "U"), (ID_I, "I"), (ID_F, "F"), (ID_S, "S"), (ID_B, "B"), (ID_M, "M(master)"), (ID_VOID, "Void"), (0xf2, "unknown-id")];
    let limits: Vec<(MaxSize, u64)> = vec![(MaxSize::Limit(0), 0), (MaxSize::Limit(1), 1), (MaxSize::Limit(5), 5), (MaxSize::Limit(16), 16), (MaxSize::Limit(1000), 1000), (MaxSize::Limit(1 << 20), 1 << 20), (MaxSize::Default, 4_000_000_000)];
    let caps: Vec<Option<usize>> = vec![Some(16), Some(4096), None];
    let contexts = [Context::Root, Context::InKnownSmall, Context::InKnownRoomy, Context::InUnknown];
    // long streams of elements well below the limit: the buffer (observed through the largest slice offered to
    // read()) must stay within a small multiple of max(M, capacity) however many elements go by
    {
        let mut streams: Vec<(String, Vec<u8>)> = Vec::new();
        for (name, modulus, n) in [("payload sizes 1..60", 60usize, 20_000usize), ("payload sizes 17..48 (prime stride)", 32, 30_000), ("uniform 40-byte payloads", 1, 10_000)] {
            let mut v = vec![0x81u8, 0xff];
            for i in 0..n {
                let len = if modulus == 1 { 40 } else if modulus == 32 { 17 + (i * 7) % 32 } else { 1 + (i * 37) % modulus };
                v.push(0x88);
                v.push(0x80 | len as u8);
                v.extend(std::iter::repeat((i % 251) as u8).take(len));
            }
            streams.push((format!("Root(unknown)[{} x B, {}]", n, name), v));
        }
        let mut k = 0u64;
        for (name, bytes) in &streams {
            for (lim, m) in [(MaxSize::Limit(64), 64usize), (MaxSize::Limit(1000), 1000), (MaxSize::Default, 0)] {
                for cap in [Some(16usize), Some(32), Some(100), None] {
                    let mine = ctx.mine(k);
                    k += 1;
                    if !mine {
                        continue;
                    }
                    let cfg = Cfg { allow: 0, buffered: vec![], cap, max_size: lim, eof_end: true };
                    let d = || format!("long stream {} ({} bytes) {}", name, bytes.len(), cfg.short());
                    if !ctx.enter(&d) {
                        continue;
                    }
                    ctx.nontrivial();
                    ctx.count("long_streams", 1);
                    let (n, clean, max_req, growth) = long_stream(bytes, &cfg);
                    ctx.transitions += n as u64 + 1;
                    let capn = cap.unwrap_or(65536).max(16);
                    // every element is at most 60 bytes: the buffer never has a reason to exceed max(capacity, 60)
                    let bound = 4 * capn.max(m.min(60)).max(60);
                    if !clean {
                        ctx.violation("long-stream/does-not-parse-cleanly", &d, &format!("{} items", n));
                    } else if max_req > bound {
                        ctx.violation("long-stream/buffer-keeps-growing", &d, &format!("largest slice offered to read(): {} bytes (bound {}), peak heap growth {}", max_req, bound, growth));
                    }
                    ctx.validated += 1;
                    ctx.leave();
                }
            }
        }
    }
    histories(ctx);
    reconfiguration(ctx);
    let mut case_no = 0u64;
    for (lim, m) in &limits {
        let mut sizes: Vec<u64> = vec![0, 1, m.saturating_sub(1), *m, m + 1, 2 * m, 2 * m + 2, 1 << 20, 1 << 30, 1 << 40, (1 << 56) - 2];
        if *lim == MaxSize::Default {
            sizes = vec![0, 1, 16, m + 1, 2 * m, 1 << 40, (1 << 56) - 2];
        }
        sizes.sort();
        sizes.dedup();
        for s in &sizes {
            let s = *s;
            if s <= *m && s > (1 << 20) {
                continue;
            }
            for width in 1..=8usize {
                if quick && ![1usize, 2, 4, 5, 8].contains(&width) && s > 0 {
                    continue;
                }
                for (id, name) in &ids {
                    for cx in contexts {
                        for present in [0usize, 3] {
                            let payload: Vec<u8> = vec![0x41; present.min(s as usize)];
                            if present == 3 && s == 0 {
                                continue;
                            }
                            for tail in [0usize, 200_000] {
                                if tail > 0 && (s <= *m || present > 0) {
                                    continue;
                                }
                                let Some((input, el_start)) = build(cx, *id, s, width, &payload, tail) else { continue };
                                let Some((input0, _)) = build(cx, *id, 0, width, &[], tail) else { continue };
                                for cap in &caps {
                                    if tail > 0 && cap.is_some() && quick {
                                        continue;
                                    }
                                    for allow in 0..8u8 {
                                        let mine = ctx.mine(case_no);
                                        case_no += 1;
                                        if !mine {
                                            continue;
                                        }
                                        let cfg = Cfg { allow, buffered: vec![], cap: *cap, max_size: *lim, eof_end: true };
                                        let d = || format!("{} in {:?} declaring S={} (width {}) payload_present={} tail={} input={} {}", name, cx, s, width, payload.len(), tail, hex(&input[..input.len().min(40)]), cfg.short());
                                        if !ctx.enter(&d) {
                                            continue;
                                        }
                                        let capn = cap.unwrap_or(65536).max(16);
                                        if s as usize > capn {
                                            ctx.nontrivial();
                                        }
                                        let base = measure(&input0, &cfg);
                                        let r = measure(&input, &cfg);
                                        ctx.transitions += (base.obs.items.len() + r.obs.items.len() + 2) as u64;
                                        ctx.outcome(&(r.obs.items.len(), r.obs.term.short().len()));
                                        let mut bad: Option<(String, String)> = None;
                                        if let Term::Panic(p) = &r.obs.term {
                                            bad = Some(("panic".into(), p.clone()));
                                        } else if r.obs.term == Term::Budget {
                                            bad = Some(("no-termination".into(), String::new()));
                                        } else if s > *m {
                                            ctx.count("over_limit_cases", 1);
                                            if tail > 0 {
                                                ctx.count("over_limit_with_tail", 1);
                                            }
                                            // rejected: a corruption error positioned at (or before) the element, nothing emitted for it
                                            let emitted_el = r.obs.items.iter().any(|(it, off)| *off == el_start && it.id() == *id && !it.is_end());
                                            let rejected = match &r.obs.term {
                                                Term::Err(NErr::InvalidTagSize { pos, id: i, .. }) => (*pos == el_start && *i == *id) || *pos < el_start,
                                                Term::Err(NErr::InvalidTagData { .. }) | Term::Err(NErr::InvalidTagId { .. }) | Term::Err(NErr::Hierarchy { .. }) | Term::Err(NErr::OversizedChild { .. }) => true,
                                                _ => false,
                                            };
                                            if !rejected || emitted_el {
                                                bad = Some(("over-limit/not-rejected".into(), format!("observed {}", r.obs.short())));
                                            } else if r.growth > base.growth + 4096 {
                                                bad = Some(("over-limit/allocation-depends-on-declared-size".into(), format!("peak heap growth {} bytes vs {} for the same stream declaring 0 (largest single request {})", r.growth, base.growth, r.max_req)));
                                            } else if r.pulled > capn + el_start + 16 {
                                                bad = Some(("over-limit/read-past-the-header".into(), format!("{} bytes pulled from the source (capacity {})", r.pulled, capn)));
                                            }
                                        } else {
                                            if (payload.len() as u64) < s {
                                                ctx.count("within_limit_payload_missing", 1);
                                            }
                                            let bound = 8 * (s as usize).max(capn) + (64 << 10);
                                            if r.growth > bound {
                                                bad = Some(("within-limit/allocation-exceeds-bound".into(), format!("peak heap growth {} > 8*max(S,capacity)+64KiB = {}", r.growth, bound)));
                                            }
                                        }
                                        if let Some((k, det)) = bad {
                                            ctx.violation(&k, &d, &det);
                                        }
                                        ctx.validated += 1;
                                        ctx.leave();
                                    }
                                }
                            }
                        }
                    }
                }
            }
        }
    }
}
