//! C08 — buffered (Full) masters are exactly the flat stream rolled up.

use crate::ctx::Ctx;
use crate::docs::{self, DocParams, MutKind};
use crate::gen::{self, SIGMA};
use crate::obs::{parse_slice, Cfg, MaxSize, Obs, Term};
use crate::refmodel::{hex, ref_encode, Kind, NItem, Node};
use crate::spec::*;

/// Compare a buffered parse with the unbuffered parse of the same bytes.
pub fn rollup_check(flat: &Obs, buf: &Obs, set: &[u64]) -> Result<(), (String, String)> {
    let mut j = 0usize;
    for (n, (item, off)) in buf.items.iter().enumerate() {
        match item {
            NItem::Full(id, _) => {
                if !set.contains(id) {
                    return Err(("full-item-for-unrequested-master".into(), format!("item #{} {}", n, item.short())));
                }
                let mut un = Vec::new();
                item.unroll_into(&mut un);
                if j + un.len() > flat.items.len() {
                    return Err(("full/more-than-the-flat-stream-has".into(), format!("item #{} {} unrolls to {} items but only {} remain in the flat stream", n, item.short(), un.len(), flat.items.len() - j)));
                }
                if flat.items[j].1 != *off {
                    return Err(("full/offset-differs-from-flat-start".into(), format!("item #{} {} at {} but the flat Start is at {}", n, item.short(), off, flat.items[j].1)));
                }
                for (k, u) in un.iter().enumerate() {
                    if flat.items[j + k].0 != *u {
                        return Err(("full/children-differ-from-flat-stream".into(), format!("item #{} {}: unrolled element {} is {} but the flat stream has {}", n, item.short(), k, u.short(), flat.items[j + k].0.short())));
                    }
                }
                j += un.len();
            }
            other => {
                if let NItem::Start(id) = other {
                    // (a buffered master that the input does not complete may come out flat: the statement only asks
                    // for a prefix of the flattening before the error)
                    let incomplete = matches!(flat.term, Term::Err(_)) && {
                        let mut depth = 0i64;
                        let mut closed = false;
                        for (it, _) in flat.items.iter().skip(j) {
                            match it {
                                NItem::Start(_) => depth += 1,
                                NItem::End(_) => {
                                    depth -= 1;
                                    if depth == 0 {
                                        closed = true;
                                        break;
                                    }
                                }
                                _ => {}
                            }
                        }
                        !closed
                    };
                    if set.contains(id) && !incomplete {
                        return Err(("start-emitted-for-buffered-master".into(), format!("item #{} {}", n, item.short())));
                    }
                }
                if j >= flat.items.len() {
                    return Err(("item-beyond-flat-stream".into(), format!("item #{} {}@{} but the flat stream has only {} items", n, item.short(), off, flat.items.len())));
                }
                if flat.items[j].0 != *other {
                    return Err(("item-differs-from-flat-stream".into(), format!("item #{} {} but flat stream has {}", n, item.short(), flat.items[j].0.short())));
                }
                if flat.items[j].1 != *off {
                    return Err(("offset-outside-buffered-master-differs".into(), format!("item #{} {} at {} but {} in the flat stream", n, item.short(), off, flat.items[j].1)));
                }
                j += 1;
            }
        }
    }
    match (&flat.term, &buf.term) {
        (Term::Done, Term::Done) => {
            if j != flat.items.len() {
                return Err(("clean-end/buffered-stream-shorter".into(), format!("buffered parse ended cleanly after {} of {} flat items", j, flat.items.len())));
            }
            Ok(())
        }
        (Term::Done, t) => Err((format!("flat-clean-but-buffered-{}", if matches!(t, Term::Err(_)) { "errors" } else { "panics-or-hangs" }), t.short())),
        (Term::Err(fe), Term::Err(be)) => {
            // the same bytes fail the same way; everything the flat parse emitted before the error is there, except
            // what lies inside a buffered master that was still open (nothing of it is emitted)
            let _ = (fe, be); // which error is not prescribed
            if j < flat.items.len() && !matches!(&flat.items[j].0, NItem::Start(id) if set.contains(id)) {
                return Err(("error/items-before-it-missing".into(), format!("buffered parse stops after {} of {} flat items, and flat item #{} {} is not the Start of a buffered master", j, flat.items.len(), j, flat.items[j].0.short())));
            }
            Ok(())
        }
        (Term::Err(_), Term::Done) => Err(("flat-errors-but-buffered-ends-cleanly".into(), String::new())),
        (_, Term::Panic(p)) => Err(("panic".into(), p.clone())),
        (_, Term::Budget) => Err(("no-termination".into(), String::new())),
        (Term::Panic(_), _) | (Term::Budget, _) => Ok(()), // C05's business
    }
}

fn masters_present(doc: &[Node]) -> Vec<u64> {
    let mut v = Vec::new();
    crate::refmodel::visit(doc, &mut |n, _| {
        if n.is_master() && !v.contains(&n.id) {
            v.push(n.id);
        }
    }, 0);
    v
}

fn run_pair<T: crate::spec::SpecT>(ctx: &mut Ctx, input: &[u8], base: &Cfg, flat: &Obs, set: &[u64], origin: &str) {
    let d = || format!("{} input={} buffered=[{}] allow={}", origin, hex(input), set.iter().map(|x| format!("{:x}", x)).collect::<Vec<_>>().join(","), base.allow);
    if !ctx.enter(&d) {
        return;
    }
    let cfg = base.clone().with_buffered(set);
    let buf = parse_slice::<T>(input, &cfg);
    ctx.transitions += buf.items.len() as u64 + 1;
    let mut fulls = 0;
    let mut nested = false;
    for (i, _) in &buf.items {
        if let NItem::Full(_, ch) = i {
            fulls += 1;
            if !ch.is_empty() {
                ctx.nontrivial();
            }
            if ch.iter().any(|c| matches!(c, NItem::Full(..))) {
                nested = true;
            }
        }
    }
    if fulls > 0 {
        ctx.count("full_items", fulls);
    }
    if nested {
        ctx.count("nested_full", 1);
    }
    if matches!(flat.term, Term::Err(_)) && fulls > 0 {
        ctx.count("error_after_full", 1);
    }
    // an End queued before a buffered master: an End immediately followed by a Full
    if buf.items.windows(2).any(|w| w[0].0.is_end() && matches!(w[1].0, NItem::Full(..))) {
        ctx.count("end_queued_before_buffered_master", 1);
    }
    ctx.outcome(&(buf.items.len(), fulls, std::mem::discriminant(&buf.term)));
    if let Err((k, det)) = rollup_check(flat, &buf, set) {
        ctx.violation(&k, &d, &format!("{} | flat {} | buffered {}", det, flat.short(), buf.short()));
    }
    ctx.validated += 1;
    ctx.leave();
}

pub fn run(ctx: &mut Ctx) {
    let rs = v_refspec();
    crate::spec::assert_spec_matches::<V>(&rs);
    let quick = ctx.quick();
    let n = ctx.tier.pick(5, 6);
    ctx.meta("rule", "cases: (input, tolerance, buffered set); inputs = documents of T∘E (known/unknown-size mixes, deep spines) with EVERY subset of the masters present in the document (+ one absent master) as buffered set, every single mutation of the smaller documents, > 64 KiB buffer-boundary documents and every Σ string up to length n with a fixed family of buffered sets; strict and all-tolerant; the same over the second derived specification W (documents x all subsets, mutations of documents <= 3 elements, Σ_W strings), where the global master G may contain a G. Oracle: the buffered parse, with each Full replaced by Start/children/End, walked in lock-step against the unbuffered parse of the same bytes: equal items, equal offsets outside buffered masters, Full offset == flat Start offset, clean end iff clean end, error => an error after every flat item up to the Start of a buffered master that was still open (elements outside buffered masters are unaffected). Non-trivial: pairs emitting a Full with >= 1 child.");
    ctx.meta("bounds", &format!("documents <= {} elements, all subsets of present masters; Σ* length <= {}", ctx.tier.pick(5, 6), n));
    ctx.meta("assumptions", "end-of-stream closing left at its default (on): with it disabled a buffered master open at the end of input cannot be completed by definition");
    for c in ["full_items", "nested_full", "error_after_full", "end_queued_before_buffered_master", "unknown_size_buffered", "buffer_boundary_docs", "w_pairs", "w_master_nested_in_itself"] {
        ctx.expect_nonzero(c);
    }
    let strict = Cfg::strict();
    let mut tol = Cfg::strict().with_allow(7);
    tol.max_size = MaxSize::Limit(1 << 16);
    let mut mstrict = Cfg::strict();
    mstrict.max_size = MaxSize::Limit(1 << 16);
    // documents x all subsets of present masters
    let p = DocParams { max_nodes: ctx.tier.pick(5, 6), globals: vec![ID_TAG, ID_VOID], exclude: vec![], unknown_subsets: true, devs: 0, payload_classes: false, big_payloads: false, noncanonical: false, width_devs: false, extras: true, all_widths: false };
    docs::for_each_doc(ctx, &rs, &p, &mut |ctx, doc| {
        let (bytes, lay) = ref_encode(doc);
        let present = masters_present(doc);
        let flat = parse_slice::<V>(&bytes, &strict);
        let has_unknown = lay.iter().any(|l| l.unknown);
        let m = present.len().min(6);
        for mask in 1u32..(1u32 << m) {
            let mut set: Vec<u64> = (0..m).filter(|i| mask >> i & 1 == 1).map(|i| present[i]).collect();
            if mask & 1 == 1 && !present.contains(&ID_P) {
                set.push(ID_P); // an absent master in the set must change nothing
            }
            if has_unknown {
                ctx.count("unknown_size_buffered", 1);
            }
            run_pair::<V>(ctx, &bytes, &strict, &flat, &set, "doc");
        }
        // mutations of the small documents
        if gen::count_nodes(doc) <= ctx.tier.pick(3, 4) {
            let bounds: Vec<usize> = lay.iter().map(|l| l.tag_start).collect();
            docs::for_each_mutation(&bytes, &bounds, &SIGMA, &[MutKind::Replace, MutKind::Delete, MutKind::Truncate, MutKind::Suffix], &mut |mb, _k, _pos| {
                let flat_m = parse_slice::<V>(mb, &mstrict);
                let flat_t = parse_slice::<V>(mb, &tol);
                for mask in 1u32..(1u32 << m) {
                    let set: Vec<u64> = (0..m).filter(|i| mask >> i & 1 == 1).map(|i| present[i]).collect();
                    run_pair::<V>(ctx, mb, &mstrict, &flat_m, &set, "mut");
                    if !quick || mask.count_ones() == 1 {
                        run_pair::<V>(ctx, mb, &tol, &flat_t, &set, "mut");
                    }
                }
                !ctx.should_stop()
            });
        }
        !ctx.should_stop()
    });
    for (i, doc) in docs::buffer_boundary_docs(ctx.tier.pick(16, 64)).into_iter().enumerate() {
        if !ctx.mine(i as u64) {
            continue;
        }
        let (bytes, _) = ref_encode(&doc);
        let flat = parse_slice::<V>(&bytes, &strict);
        ctx.count("buffer_boundary_docs", 1);
        for set in [vec![ID_M], vec![ID_ROOT], vec![ID_L, ID_N], vec![ID_ROOT, ID_M, ID_N, ID_K, ID_L]] {
            run_pair::<V>(ctx, &bytes, &strict, &flat, &set, "buffer-boundary-doc");
        }
    }
    // Σ*
    let sets: Vec<Vec<u64>> = vec![vec![ID_ROOT], vec![ID_M], vec![ID_ROOT, ID_M], vec![ID_EBML, ID_ROOT, ID_M, ID_N, ID_K, ID_L, ID_P]];
    let (shard, nshards) = (ctx.shard, ctx.nshards);
    gen::strings(&SIGMA, n, shard, nshards, &mut |s| {
        let flat = parse_slice::<V>(s, &strict);
        let flat_t = parse_slice::<V>(s, &tol);
        for set in &sets {
            run_pair::<V>(ctx, s, &strict, &flat, set, "sigma");
            run_pair::<V>(ctx, s, &tol, &flat_t, set, "sigma");
        }
        !ctx.should_stop()
    });
    // the second derived specification W: masters with placeholder paths, a global master G that may contain itself
    // once ((0-1)/G), so a buffered master can contain a master with the same id
    let w = crate::spec::w_refspec();
    crate::spec::assert_spec_matches::<crate::spec::W>(&w);
    type W = crate::spec::W;
    let pw = DocParams { max_nodes: ctx.tier.pick(4, 5), globals: vec![0x96, 0xa7, ID_VOID], exclude: vec![], unknown_subsets: true, devs: 0, payload_classes: false, big_payloads: false, noncanonical: false, width_devs: false, extras: false, all_widths: false };
    docs::for_each_doc(ctx, &w, &pw, &mut |ctx, doc| {
        let (bytes, lay) = ref_encode(doc);
        let present = masters_present(doc);
        let flat = parse_slice::<W>(&bytes, &strict);
        let m = present.len().min(6);
        let mut same_id_nested = false;
        crate::refmodel::visit(doc, &mut |n, _| {
            if let crate::refmodel::Kind::Master(ch) = &n.kind {
                if ch.iter().any(|c| c.id == n.id) {
                    same_id_nested = true;
                }
            }
        }, 0);
        for mask in 1u32..(1u32 << m) {
            let set: Vec<u64> = (0..m).filter(|i| mask >> i & 1 == 1).map(|i| present[i]).collect();
            ctx.count("w_pairs", 1);
            if same_id_nested {
                ctx.count("w_master_nested_in_itself", 1);
            }
            run_pair::<W>(ctx, &bytes, &strict, &flat, &set, "W-doc");
        }
        if gen::count_nodes(doc) <= 3 {
            let bounds: Vec<usize> = lay.iter().map(|l| l.tag_start).collect();
            docs::for_each_mutation(&bytes, &bounds, &crate::c06::SIGMA_W, &[MutKind::Replace, MutKind::Delete, MutKind::Truncate, MutKind::Suffix], &mut |mb, _k, _pos| {
                let flat_m = parse_slice::<W>(mb, &mstrict);
                let flat_t = parse_slice::<W>(mb, &tol);
                for mask in 1u32..(1u32 << m) {
                    let set: Vec<u64> = (0..m).filter(|i| mask >> i & 1 == 1).map(|i| present[i]).collect();
                    run_pair::<W>(ctx, mb, &mstrict, &flat_m, &set, "W-mut");
                    if !quick || mask.count_ones() == 1 {
                        run_pair::<W>(ctx, mb, &tol, &flat_t, &set, "W-mut");
                    }
                }
                !ctx.should_stop()
            });
        }
        !ctx.should_stop()
    });
    let wsets: Vec<Vec<u64>> = vec![vec![0x96], vec![0x94], vec![0x91], vec![0x91, 0x4092, 0x209393, 0x94, 0x95, 0x96]];
    gen::strings(&crate::c06::SIGMA_W, ctx.tier.pick(4, 5), shard, nshards, &mut |s| {
        let flat = parse_slice::<W>(s, &strict);
        let flat_t = parse_slice::<W>(s, &tol);
        for set in &wsets {
            run_pair::<W>(ctx, s, &strict, &flat, set, "W-sigma");
            run_pair::<W>(ctx, s, &tol, &flat_t, set, "W-sigma");
        }
        !ctx.should_stop()
    });
}
