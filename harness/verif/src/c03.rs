//! C03 — every emitted tag mirrors the bytes at its reported offset; non-End items tile the stream.

use crate::ctx::Ctx;
use crate::docs::{self, DocParams, MutKind};
use crate::gen::{self, SIGMA};
use crate::obs::{parse_slice, Cfg, MaxSize, Obs, ALLOW_IDS};
use crate::refmodel::{decode_header_opt, hex, ref_encode, NItem, Val};
use crate::spec::{v_refspec, RefSpec, Ty, ID_K, ID_L, ID_M, ID_N, ID_P, ID_ROOT, ID_EBML, V};

/// Check one non-End item against the input at `off`; returns the offset where the item's own bytes end
/// (header end for a Start, payload end for a leaf, end of the last descendant for a Full).
fn mirror_item(input: &[u8], n: usize, item: &NItem, off: usize, rs: &RefSpec, cfg: &Cfg, in_full: bool) -> Result<usize, (String, String)> {
    let pre = if in_full { "full-child/" } else if matches!(item, NItem::Full(..)) { "full/" } else { "" };
    if off > input.len() {
        return Err((format!("{}offset/beyond-input", pre), format!("item #{} {} at offset {} > input length {}", n, item.short(), off, input.len())));
    }
    let Some(h) = decode_header_opt(&input[off..], cfg.allow & ALLOW_IDS != 0) else {
        return Err((format!("{}offset/no-header-there", pre), format!("item #{} {} at offset {} where no complete header can be decoded", n, item.short(), off)));
    };
    if h.id != item.id() {
        return Err((format!("{}offset/other-id-there", pre), format!("item #{} {} at offset {} but the id there is {:x}", n, item.short(), off, h.id)));
    }
    let data_start = off + h.id_len + h.size_len;
    match item {
        NItem::Start(id) => {
            if rs.ty(*id) != Some(Ty::Master) {
                return Err(("start/not-a-master".into(), format!("item #{} Start for non-master {:x}", n, id)));
            }
            Ok(data_start)
        }
        NItem::Full(id, children) => {
            if rs.ty(*id) != Some(Ty::Master) {
                return Err(("full/not-a-master".into(), format!("item #{} Full for non-master {:x}", n, id)));
            }
            let mut cur = data_start;
            for c in children {
                if c.is_end() || matches!(c, NItem::Start(_)) {
                    return Err(("full/unrolled-child".into(), format!("item #{} {} contains a Start/End child", n, item.short())));
                }
                cur = mirror_item(input, n, c, cur, rs, cfg, true)?;
            }
            Ok(cur)
        }
        NItem::Leaf(id, val) => {
            let Some(s) = h.size else {
                return Err((format!("{}leaf/unknown-size-emitted", pre), format!("item #{} {} has an all-ones size field", n, item.short())));
            };
            let end = data_start + s as usize;
            if end > input.len() {
                return Err((format!("{}leaf/payload-beyond-input", pre), format!("item #{} {} declares {} payload bytes at {} but the input has {}", n, item.short(), s, data_start, input.len())));
            }
            let ty = rs.ty(*id).ok_or_else(|| ("leaf/unknown-id".to_string(), format!("item #{} typed leaf for unknown id {:x}", n, id)))?;
            let want = Val::decode(ty, &input[data_start..end]);
            if want.as_ref() != Ok(val) {
                return Err((format!("{}leaf/value-differs-{:?}", pre, ty), format!("item #{} {} but payload {} decodes to {:?}", n, item.short(), hex(&input[data_start..end]), want)));
            }
            Ok(end)
        }
        NItem::Raw(id, b) => {
            if rs.ty(*id).is_some() {
                return Err(("raw/known-id".into(), format!("item #{} raw tag for specification id {:x}", n, id)));
            }
            let Some(s) = h.size else {
                return Err(("raw/unknown-size-emitted".into(), format!("item #{} {}", n, item.short())));
            };
            let end = data_start + s as usize;
            if end > input.len() || &input[data_start..end] != &b[..] {
                return Err((format!("{}raw/bytes-differ", pre), format!("item #{} {} vs input", n, item.short())));
            }
            Ok(end)
        }
        NItem::End(_) => unreachable!(),
    }
}

/// The oracle: Err((class key, detail)) on the first item that does not mirror the input.
pub fn mirror_check(input: &[u8], obs: &Obs, rs: &RefSpec, cfg: &Cfg) -> Result<(), (String, String)> {
    let mut cursor: usize = 0;
    let mut stack: Vec<(u64, usize)> = Vec::new();
    for (n, (item, off)) in obs.items.iter().enumerate() {
        let off = *off;
        if let NItem::End(id) = item {
            match stack.last() {
                Some((sid, soff)) => {
                    if sid != id {
                        return Err(("end/does-not-match-open-start".into(), format!("item #{} End({:x}) while innermost open Start is {:x}", n, id, sid)));
                    }
                    if *soff != off {
                        return Err(("end/offset-differs-from-start".into(), format!("item #{} End({:x}) reports offset {} but its Start was at {}", n, id, off, soff)));
                    }
                    stack.pop();
                }
                None => {
                    if off != 0 {
                        return Err(("end/implied-ancestor-offset-nonzero".into(), format!("item #{} End({:x}) of an implied ancestor reports offset {}", n, id, off)));
                    }
                }
            }
            continue;
        }
        if cursor != off {
            return Err(("tiling/gap-or-overlap".into(), format!("item #{} {} starts at {} but the previous non-End item ended at {}", n, item.short(), off, cursor)));
        }
        cursor = mirror_item(input, n, item, off, rs, cfg, false)?;
        if let NItem::Start(id) = item {
            stack.push((*id, off));
        }
    }
    Ok(())
}

fn run_one(ctx: &mut Ctx, rs: &RefSpec, input: &[u8], cfg: &Cfg, origin: &str) {
    let d = || format!("{} input={} {}", origin, hex(input), cfg.short());
    if !ctx.enter(&d) {
        return;
    }
    let obs = parse_slice::<V>(input, cfg);
    ctx.transitions += obs.items.len() as u64 + 1;
    let non_end = obs.items.iter().filter(|x| !x.0.is_end()).count();
    if non_end >= 2 {
        ctx.nontrivial();
    }
    if obs.items.iter().any(|x| matches!(x.0, NItem::Full(..))) {
        ctx.count("full_items_seen", 1);
    }
    if obs.items.iter().any(|x| matches!(x.0, NItem::Raw(..))) {
        ctx.count("raw_items_seen", 1);
    }
    ctx.outcome(&(obs.items.len(), std::mem::discriminant(&obs.term)));
    if let Err((k, det)) = mirror_check(input, &obs, rs, cfg) {
        ctx.violation(&k, &d, &format!("{} | observed {}", det, obs.short()));
    }
    ctx.validated += 1;
    ctx.leave();
}

pub fn configs(quick: bool) -> Vec<Cfg> {
    let all = vec![ID_EBML, ID_ROOT, ID_M, ID_N, ID_K, ID_L, ID_P];
    let bufsets: Vec<Vec<u64>> = if quick { vec![vec![], vec![ID_M], all.clone()] } else { vec![vec![], vec![ID_ROOT], vec![ID_M], vec![ID_N, ID_P], all.clone()] };
    let mut v = Vec::new();
    for allow in 0..8u8 {
        for b in &bufsets {
            for cap in [None, Some(16)] {
                if cap.is_some() && !(b.is_empty()) && quick {
                    continue;
                }
                v.push(Cfg::strict().with_allow(allow).with_buffered(b).with_cap(cap));
            }
        }
    }
    v
}

pub fn run(ctx: &mut Ctx) {
    let rs = v_refspec();
    crate::spec::assert_spec_matches::<V>(&rs);
    let n = ctx.tier.pick(5, 6);
    let doc_nodes = ctx.tier.pick(4, 5);
    ctx.meta("rule", "cases: (input, configuration) pairs; inputs = every string over the 18-byte alphabet Σ up to length n, every document of T∘E (all known/unknown-size choices, non-canonical payloads, width deviations) and every single mutation of it (each byte replaced by each Σ byte, each byte deleted, each truncation, each mid-document suffix), every document with one master child renamed to its parent's id (same-id nesting, hierarchy problems tolerated, that id buffered), documents longer than the 64 KiB buffer with 9..16-byte headers at every alignment around the buffer boundary, and size-boundary documents (payload / content 123..128, 16379..16384 bytes in minimal and wider size fields); configurations = 8 tolerance subsets x buffered sets x capacity {default,16}. Oracle: for each Ok item, RefCodec decodes the header at the reported offset of the *input*; id, decoded value, End/Full offsets and contiguity of non-End items are compared, up to the first error. Non-trivial: parses that emit >= 2 non-End items.");
    ctx.meta("bounds", &format!("Σ* length <= {}; documents <= {} elements over V with 1 encoding deviation; all single mutations", n, doc_nodes));
    ctx.meta("assumptions", "payload bytes outside the representative classes are only copied (data independence) || tiling after a Full item is only checked when its size is known and oversized children are not tolerated");
    ctx.expect_nonzero("full_items_seen");
    ctx.expect_nonzero("raw_items_seen");
    ctx.expect_nonzero("buffer_boundary_docs");
    ctx.expect_nonzero("size_boundary_docs");
    ctx.expect_nonzero("same_id_nesting_buffered");
    let cfgs = configs(ctx.quick());
    // Σ*
    let (shard, nshards) = (ctx.shard, ctx.nshards);
    gen::strings(&SIGMA, n, shard, nshards, &mut |s| {
        for c in &cfgs {
            run_one(ctx, &rs, s, c, "sigma");
        }
        !ctx.should_stop()
    });
    boundary_docs(ctx, &rs);
    size_boundary_docs(ctx, &rs);
    // documents and their mutations
    let p = DocParams { max_nodes: doc_nodes, globals: vec![crate::spec::ID_TAG, crate::spec::ID_VOID], exclude: vec![], unknown_subsets: true, devs: 1, payload_classes: false, big_payloads: false, noncanonical: true, width_devs: true, extras: true, all_widths: false };
    // mutated size fields can declare gigabytes (legitimately allocated below the default 4 GB limit, see C17):
    // the mutation corpus runs with a 64 KiB limit so that the sweep stays fast
    let mcfgs: Vec<Cfg> = cfgs.iter().filter(|c| c.cap.is_none() && (c.buffered.is_empty() || c.allow == 0)).map(|c| { let mut c = c.clone(); c.max_size = MaxSize::Limit(1 << 16); c }).collect();
    let kinds = [MutKind::Replace, MutKind::Delete, MutKind::Truncate, MutKind::Suffix];
    docs::for_each_doc(ctx, &rs, &p, &mut |ctx, doc| {
        let (bytes, lay) = ref_encode(doc);
        for c in &cfgs {
            run_one(ctx, &rs, &bytes, c, "doc");
        }
        // mutations only of the deviation-free encodings, strict + fully tolerant + two mixed configurations
        let plain = doc_is_plain(doc);
        if plain {
            // a master nested in a master of the SAME id (hierarchy problems tolerated), that id buffered: every master
            // child of a master takes its parent's id in turn
            let mut slot = 0usize;
            loop {
                let mut d2 = doc.clone();
                let mut k = 0usize;
                let mut parent_id: Option<u64> = None;
                fn rename(nodes: &mut [crate::refmodel::Node], k: &mut usize, slot: usize, out: &mut Option<u64>) {
                    for n in nodes.iter_mut() {
                        let pid = n.id;
                        if let crate::refmodel::Kind::Master(ch) = &mut n.kind {
                            for c in ch.iter_mut() {
                                if c.is_master() {
                                    if *k == slot && out.is_none() {
                                        c.id = pid;
                                        *out = Some(pid);
                                    }
                                    *k += 1;
                                }
                            }
                            rename(ch, k, slot, out);
                        }
                    }
                }
                rename(&mut d2, &mut k, slot, &mut parent_id);
                let Some(pid) = parent_id else { break };
                slot += 1;
                let (b2, _) = ref_encode(&d2);
                for allow in [crate::obs::ALLOW_HIER, 7u8] {
                    let mut c = Cfg::strict().with_allow(allow).with_buffered(&[pid]);
                    c.max_size = MaxSize::Limit(1 << 16);
                    ctx.count("same_id_nesting_buffered", 1);
                    run_one(ctx, &rs, &b2, &c, "same-id-nesting");
                }
            }
        }
        if plain {
            let bounds: Vec<usize> = lay.iter().map(|l| l.tag_start).collect();
            docs::for_each_mutation(&bytes, &bounds, &SIGMA, &kinds, &mut |m, _k, _pos| {
                for c in mcfgs.iter() {
                    run_one(ctx, &rs, m, c, "mut");
                }
                !ctx.should_stop()
            });
        }
        !ctx.should_stop()
    });
}

/// payload / content sizes of 2^(7k)-1 and neighbours, in minimal and in wider size fields
fn size_boundary_docs(ctx: &mut Ctx, rs: &RefSpec) {
    use crate::refmodel::{Kind, SizeEnc};
    let mut k = 0u64;
    for doc in docs::size_boundary_docs() {
        let mut variants = vec![doc.clone()];
        // the boundary element's size in a wider field
        for w in [2u8, 3, 8] {
            let mut d = doc.clone();
            if let Kind::Master(ch) = &mut d[0].kind {
                if ch[0].size == SizeEnc::Min {
                    ch[0].size = SizeEnc::Width(w);
                    variants.push(d);
                }
            }
        }
        for d in variants {
            let mine = ctx.mine(k);
            k += 1;
            if !mine || !crate::refmodel::encodable(&d) {
                continue;
            }
            let (bytes, _) = ref_encode(&d);
            for cfg in [Cfg::strict().with_allow(ALLOW_IDS), Cfg::strict().with_allow(ALLOW_IDS).with_buffered(&[ID_ROOT, ID_M, ID_L])] {
                let dd = || format!("size-boundary doc=[{}] ({} bytes) {}", docs::doc_short(rs, &d), bytes.len(), cfg.short());
                if !ctx.enter(&dd) {
                    continue;
                }
                ctx.count("size_boundary_docs", 1);
                ctx.nontrivial();
                let obs = parse_slice::<V>(&bytes, &cfg);
                ctx.transitions += obs.items.len() as u64 + 1;
                if !obs.clean() {
                    ctx.violation("size-boundary/valid-document-does-not-parse", &dd, &obs.term.short());
                } else if let Err((key, det)) = mirror_check(&bytes, &obs, rs, &cfg) {
                    ctx.violation(&format!("size-boundary/{}", key), &dd, &det);
                }
                ctx.validated += 1;
                ctx.leave();
            }
        }
    }
}

fn boundary_docs(ctx: &mut Ctx, rs: &RefSpec) {
    let pads = if ctx.quick() { 24 } else { 64 };
    let all = vec![ID_EBML, ID_ROOT, ID_M, ID_N, ID_K, ID_L, ID_P];
    for (i, doc) in docs::buffer_boundary_docs(pads).into_iter().enumerate() {
        if !ctx.mine(i as u64) {
            continue;
        }
        let (bytes, _) = ref_encode(&doc);
        for cfg in [Cfg::strict(), Cfg::strict().with_buffered(&[ID_M]), Cfg::strict().with_buffered(&all), Cfg::strict().with_cap(Some(16))] {
            let d = || format!("buffer-boundary doc=[{}] ({} bytes) {}", docs::doc_short(rs, &doc), bytes.len(), cfg.short());
            if !ctx.enter(&d) {
                continue;
            }
            ctx.count("buffer_boundary_docs", 1);
            ctx.nontrivial();
            let obs = parse_slice::<V>(&bytes, &cfg);
            ctx.transitions += obs.items.len() as u64 + 1;
            if !obs.clean() {
                ctx.violation("buffer-boundary/valid-document-does-not-parse", &d, &obs.term.short());
            } else if let Err((k, det)) = mirror_check(&bytes, &obs, rs, &cfg) {
                ctx.violation(&format!("buffer-boundary/{}", k), &d, &det);
            }
            ctx.validated += 1;
            ctx.leave();
        }
    }
}

pub fn doc_is_plain(doc: &[crate::refmodel::Node]) -> bool {
    use crate::refmodel::{Kind, SizeEnc};
    let mut plain = true;
    crate::refmodel::visit(doc, &mut |n, _| match &n.kind {
        Kind::Master(_) => {
            if matches!(n.size, SizeEnc::Width(_) | SizeEnc::Unknown(8)) {
                plain = false;
            }
        }
        Kind::Leaf { val, raw } => {
            if n.size != SizeEnc::Min || *raw != val.canonical_bytes() {
                plain = false;
            }
        }
        _ => {}
    }, 0);
    plain
}
