//! C16 — fixed-width payload decoders are total and invert the writer's encodings.

use std::panic::{catch_unwind, AssertUnwindSafe};

use ebml_iterable::tools::{arr_to_f64, arr_to_i64, arr_to_u64};

use crate::ctx::Ctx;
use crate::obs::{panic_msg, run_writer, Dest, WCall, WOpt};
use crate::refmodel::{be_f64_bits, be_i64, be_u64, decode_header, hex, min_int_bytes, min_uint_bytes, NItem, Val};
use crate::spec::{ID_F, ID_I, ID_ROOT, ID_U, V};

fn guard<R>(f: impl FnOnce() -> R) -> Result<R, String> {
    catch_unwind(AssertUnwindSafe(f)).map_err(panic_msg)
}

fn check_slice(ctx: &mut Ctx, s: &[u8]) {
    let d = || format!("slice {}", hex(s));
    if !ctx.enter(&d) {
        return;
    }
    if s.is_empty() || s.len() >= 8 || s[0] & 0x80 != 0 {
        ctx.nontrivial();
    }
    let lk = if s.is_empty() { "empty" } else { "" };
    ctx.outcome(&(s.len(), s.first().map(|b| b & 0x80 != 0)));
    ctx.transitions += 3;
    match guard(|| arr_to_u64(s)) {
        Err(p) => ctx.violation(&format!("arr_to_u64/panic{}", lk), &d, &p),
        Ok(r) => {
            let want = be_u64(s);
            if r.as_ref().ok().copied() != want {
                ctx.violation("arr_to_u64/wrong", &d, &format!("got {:?} want {:?}", r.map_err(|e| format!("{:?}", e)), want));
            }
            ctx.count(if want.is_some() { "u64_value" } else { "u64_error" }, 1);
        }
    }
    match guard(|| arr_to_i64(s)) {
        Err(p) => ctx.violation(&format!("arr_to_i64/panic-{}", if s.is_empty() { "empty-slice" } else { "nonempty" }), &d, &p),
        Ok(r) => {
            let want = be_i64(s);
            if r.as_ref().ok().copied() != want {
                ctx.violation("arr_to_i64/wrong", &d, &format!("got {:?} want {:?}", r.map_err(|e| format!("{:?}", e)), want));
            }
            ctx.count(if want.is_some() { "i64_value" } else { "i64_error" }, 1);
        }
    }
    match guard(|| arr_to_f64(s)) {
        Err(p) => ctx.violation("arr_to_f64/panic", &d, &p),
        Ok(r) => {
            let want = be_f64_bits(s);
            if r.as_ref().ok().map(|f| f.to_bits()) != want {
                ctx.violation("arr_to_f64/wrong", &d, &format!("got {:?} want bits {:x?}", r.map_err(|e| format!("{:?}", e)), want));
            }
            ctx.count(if want.is_some() { "f64_value" } else { "f64_error" }, 1);
        }
    }
    ctx.validated += 1;
    ctx.leave();
}

/// write Root[ leaf ] with the real writer, find the leaf's payload with RefCodec
fn written_payload(ctx: &mut Ctx, id: u64, val: Val, opt: WOpt) -> Result<(Vec<u8>, Vec<u8>), String> {
    let calls = vec![
        WCall::Tag(NItem::Start(ID_ROOT), WOpt::Default),
        WCall::Tag(NItem::Leaf(id, val), opt.clone()),
        WCall::Tag(NItem::End(ID_ROOT), WOpt::Default),
    ];
    ctx.transitions += 4;
    let run = run_writer::<V>(&calls, Dest::default());
    if let Some(e) = run.results.iter().find_map(|r| r.as_ref().err()) {
        return Err(format!("writer call failed: {:?}", e));
    }
    if let Err(e) = &run.fin {
        return Err(format!("into_inner failed: {:?}", e));
    }
    let out = run.out;
    let h = decode_header(&out).ok_or_else(|| format!("output {} has no parsable root header", hex(&out)))?;
    if h.id != ID_ROOT {
        return Err(format!("output {} does not start with Root", hex(&out)));
    }
    let inner = &out[h.id_len + h.size_len..];
    let h2 = decode_header(inner).ok_or_else(|| format!("output {}: no parsable leaf header", hex(&out)))?;
    let start = h2.id_len + h2.size_len;
    let size = h2.size.ok_or_else(|| "leaf has unknown size".to_string())? as usize;
    if h2.id != id || h.size != Some(inner.len() as u64) || start + size != inner.len() {
        return Err(format!("output {} is not Root[leaf]", hex(&out)));
    }
    if let WOpt::Width(w) = opt {
        if h2.size_len != w as usize {
            return Err(format!("output {}: size field of the leaf has {} bytes, {} were requested", hex(&out), h2.size_len, w));
        }
    }
    Ok((inner[start..].to_vec(), out.clone()))
}

fn check_value(ctx: &mut Ctx, val: Val, opt: WOpt) {
    let vv = val.clone();
    let oo = opt.clone();
    let d = move || format!("writer payload of {:?} written with {:?}", vv, oo);
    if !ctx.enter(&d) {
        return;
    }
    ctx.nontrivial();
    let (id, want): (u64, Vec<u8>) = match &val {
        Val::U(v) => (ID_U, min_uint_bytes(*v)),
        Val::I(v) => (ID_I, min_int_bytes(*v)),
        Val::F(b) => (ID_F, b.to_be_bytes().to_vec()),
        _ => unreachable!(),
    };
    match written_payload(ctx, id, val.clone(), opt.clone()) {
        Err(e) => ctx.violation("writer/unusable-output", &d, &e),
        Ok((p, out)) => {
            // the value as the real iterator hands it out, whatever the source's read sizes (the payload decoders are
            // fed from the iterator's buffer)
            for chunk in [usize::MAX, 1, 2, 3, 5, 8, 13] {
                let steps = if chunk == usize::MAX { vec![] } else { vec![crate::obs::Step::Max(chunk); out.len() + 2] };
                let (obs, _, _) = crate::obs::parse_script::<V>(&out, &crate::obs::Cfg::strict(), &steps);
                ctx.transitions += obs.items.len() as u64 + 1;
                let want_items = vec![NItem::Start(ID_ROOT), NItem::Leaf(id, val.clone()), NItem::End(ID_ROOT)];
                if !obs.clean() || obs.item_list() != want_items {
                    ctx.violation("writer/value-read-back-by-the-iterator-differs", &d, &format!("output {} read with {}-byte reads: {}", hex(&out), if chunk == usize::MAX { "whole".to_string() } else { chunk.to_string() }, obs.short()));
                    break;
                }
            }
            // the statement fixes the width for integers only: a float may be stored in 4 bytes when that loses nothing
            let float_ok = matches!(val, Val::F(_)) && (p.len() == 4 || p.len() == 8);
            if p != want && !float_ok {
                ctx.violation("writer/payload-width-or-bytes", &d, &format!("payload {} want {}", hex(&p), hex(&want)));
            }
            ctx.transitions += 1;
            let back = match &val {
                Val::U(v) => guard(|| arr_to_u64(&p).ok()) == Ok(Some(*v)),
                Val::I(v) => guard(|| arr_to_i64(&p).ok()) == Ok(Some(*v)),
                Val::F(b) => guard(|| arr_to_f64(&p).ok().map(|f| f.to_bits())) == Ok(Some(*b)),
                _ => unreachable!(),
            };
            if !back {
                ctx.violation("writer/decoder-does-not-invert", &d, &format!("payload {}", hex(&p)));
            }
            ctx.count(if opt == WOpt::Default { "writer_values" } else { "writer_values_with_explicit_size_width" }, 1);
        }
    }
    ctx.validated += 1;
    ctx.leave();
}

pub fn run(ctx: &mut Ctx) {
    let tail: &[u8] = ctx.tier.pick(&[0x00, 0x7f, 0x80, 0xff][..], &[0x00, 0x01, 0x7f, 0x80, 0xff][..]);
    ctx.meta("rule", "cases: every byte slice of length 0-2, every slice of length 3-9 over the tail alphabet with a free first byte (thorough) through arr_to_u64 / arr_to_i64 / arr_to_f64 against RefCodec; every lattice value 2^j+{-2..2} of u64 and ±2^j+{-2..2} of i64 and the float classes written as Root[leaf] by the real TagWriter, with the default options and with every explicit size-field width 1-8 (write_advanced), payload located with RefCodec and required to be the minimal 1/2/4/8-byte encoding (integers; 4 or 8 bytes for floats) that the library decoders map back to the identical value, and the output read by the real iterator (whole and with 1/2/3/5/8/13-byte reads) yields that value. Non-trivial: slices that are empty, have length >= 8 or the top bit set; all writer values.");
    ctx.meta("bounds", &format!("slice lengths 0..=9, tail alphabet {}", hex(tail)));
    ctx.meta("assumptions", "64-bit target || bytes other than the first are only shifted/added by the integer decoders (small tail alphabet for length >= 3)");
    for c in ["u64_value", "u64_error", "i64_value", "i64_error", "f64_value", "f64_error", "writer_values", "writer_values_with_explicit_size_width"] {
        ctx.expect_nonzero(c);
    }
    if ctx.mine(0) {
        check_slice(ctx, &[]);
    }
    let free_first = !ctx.quick();
    for first in 0..=255u8 {
        if !ctx.mine(first as u64) {
            continue;
        }
        check_slice(ctx, &[first]);
        for b in 0..=255u8 {
            check_slice(ctx, &[first, b]);
        }
        if !free_first && !tail.contains(&first) && first != 0x01 && first != 0xfe {
            continue;
        }
        for len in 3..=9usize {
            let k = tail.len();
            let total = k.pow((len - 1) as u32);
            let mut buf = vec![first; len];
            for mut code in 0..total {
                for slot in buf.iter_mut().skip(1) {
                    *slot = tail[code % k];
                    code /= k;
                }
                check_slice(ctx, &buf);
            }
        }
    }
    // writer inversion
    let mut vals: Vec<Val> = Vec::new();
    for j in 0..=64u32 {
        for dlt in -2i128..=2 {
            let x = (1i128 << j) + dlt;
            if x >= 0 && x <= u64::MAX as i128 {
                vals.push(Val::U(x as u64));
            }
            for s in [1i128, -1] {
                let y = s * (1i128 << j) + dlt;
                if y >= i64::MIN as i128 && y <= i64::MAX as i128 {
                    vals.push(Val::I(y as i64));
                }
            }
        }
    }
    for f in [0.0f64, -0.0, 1.5, -1.5, f64::INFINITY, f64::NEG_INFINITY, f64::MIN_POSITIVE, 5e-324, f64::MAX, 1.0e10, std::f32::consts::PI as f64] {
        vals.push(Val::F(f.to_bits()));
    }
    vals.push(Val::F(0x7ff8000000000001)); // quiet NaN with payload
    vals.push(Val::F(0x7ff0000000000001)); // signalling NaN
    vals.push(Val::F(0xfff8000000000000));
    let mut seen = std::collections::HashSet::new();
    vals.retain(|v| seen.insert(v.clone()));
    for (i, v) in vals.into_iter().enumerate() {
        if ctx.mine(i as u64) {
            check_value(ctx, v.clone(), WOpt::Default);
            // the size field's width is the caller's choice (write_advanced); the payload is not
            for w in 1..=8u8 {
                check_value(ctx, v.clone(), WOpt::Width(w));
            }
        }
    }
}
