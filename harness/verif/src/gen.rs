//! Deterministic enumerators of the bounded spaces (DESIGN §3). No randomness anywhere.

use crate::refmodel::{Kind, Node, SizeEnc, Val};
use crate::spec::{RefSpec, Ty, PP};

/// Σ: bytes chosen so that roles collide (ids that are also sizes and payload bytes).
pub const SIGMA: [u8; 18] = [0x81, 0x82, 0x83, 0x84, 0x86, 0x88, 0x8d, 0x8e, 0x80, 0x40, 0x87, 0xff, 0x01, 0x00, 0xec, 0xbf, 0xf2, 0x7f];

/// Every string over `alpha` of length 0..=n, sharded on the first two symbols. `f(string)`.
pub fn strings(alpha: &[u8], n: usize, shard: u64, nshards: u64, f: &mut dyn FnMut(&[u8]) -> bool) {
    let k = alpha.len();
    if shard == 0 {
        if !f(&[]) {
            return;
        }
        if n >= 1 {
            for a in alpha {
                if !f(&[*a]) {
                    return;
                }
            }
        }
    }
    if n < 2 {
        return;
    }
    let mut buf: Vec<u8> = Vec::with_capacity(n);
    let mut block = 0u64;
    for a in 0..k {
        for b in 0..k {
            let mine = block % nshards == shard;
            block += 1;
            if !mine {
                continue;
            }
            buf.clear();
            buf.push(alpha[a]);
            buf.push(alpha[b]);
            if !f(&buf) {
                return;
            }
            if !rec_strings(alpha, n, &mut buf, f) {
                return;
            }
        }
    }
}

fn rec_strings(alpha: &[u8], n: usize, buf: &mut Vec<u8>, f: &mut dyn FnMut(&[u8]) -> bool) -> bool {
    if buf.len() >= n {
        return true;
    }
    for c in alpha {
        buf.push(*c);
        if !f(buf) {
            return false;
        }
        if !rec_strings(alpha, n, buf, f) {
            return false;
        }
        buf.pop();
    }
    true
}

/// A forest in preorder: (depth, id).
pub type Seq = Vec<(u8, u64)>;

pub struct ForestGen<'a> {
    pub rs: &'a RefSpec,
    pub max_nodes: usize,
    /// global elements that may be placed (subset of the spec's globals)
    pub globals: Vec<u64>,
    /// ids never generated (e.g. to keep the space small)
    pub exclude: Vec<u64>,
}

impl<'a> ForestGen<'a> {
    /// Calls f for every non-empty forest with <= max_nodes nodes (every preorder prefix is a forest).
    pub fn run(&self, f: &mut dyn FnMut(&Seq) -> bool) {
        let mut seq: Seq = Vec::new();
        let mut chain: Vec<u64> = Vec::new();
        self.rec(&mut seq, &mut chain, f);
    }

    fn rec(&self, seq: &mut Seq, chain: &mut Vec<u64>, f: &mut dyn FnMut(&Seq) -> bool) -> bool {
        if seq.len() >= self.max_nodes {
            return true;
        }
        // next node is a child of chain[..k]
        for k in (0..=chain.len()).rev() {
            let sub: Vec<u64> = chain[..k].to_vec();
            let mut cands: Vec<u64> = self.rs.non_global_children(&sub);
            for g in &self.globals {
                if self.rs.allowed(*g, &sub) {
                    cands.push(*g);
                }
            }
            for id in cands {
                if self.exclude.contains(&id) {
                    continue;
                }
                seq.push((k as u8, id));
                let saved = chain.clone();
                chain.truncate(k);
                if self.rs.ty(id) == Some(Ty::Master) {
                    chain.push(id);
                }
                let go = f(seq) && self.rec(seq, chain, f);
                *chain = saved;
                seq.pop();
                if !go {
                    return false;
                }
            }
        }
        true
    }
}

pub fn default_val(ty: Ty) -> Val {
    match ty {
        Ty::U => Val::U(1),
        Ty::I => Val::I(-2),
        Ty::F => Val::F(1.5f64.to_bits()),
        Ty::S => Val::S("a".to_string()),
        Ty::B => Val::B(vec![0x42]),
        Ty::Master => unreachable!(),
    }
}

/// Build the tree with default payloads.
pub fn build(rs: &RefSpec, seq: &Seq) -> Vec<Node> {
    fn rec(rs: &RefSpec, seq: &Seq, i: &mut usize, depth: u8) -> Vec<Node> {
        let mut out = Vec::new();
        while *i < seq.len() && seq[*i].0 == depth {
            let id = seq[*i].1;
            *i += 1;
            match rs.ty(id) {
                Some(Ty::Master) => {
                    let ch = rec(rs, seq, i, depth + 1);
                    out.push(Node::master(id, ch));
                }
                Some(t) => out.push(Node::leaf(id, default_val(t))),
                None => out.push(Node { id, kind: Kind::RawLeaf(vec![0x42]), size: SizeEnc::Min }),
            }
        }
        out
    }
    let mut i = 0;
    let r = rec(rs, seq, &mut i, 0);
    assert_eq!(i, seq.len(), "machinery: malformed preorder sequence");
    r
}

pub fn seq_short(rs: &RefSpec, seq: &Seq) -> String {
    seq.iter().map(|(d, id)| format!("{}{}", ".".repeat(*d as usize), rs.name(*id))).collect::<Vec<_>>().join(" ")
}

/// Representative payload classes per type (class 0 is the default tiny payload).
pub fn payload_classes(ty: Ty, big: bool) -> Vec<Val> {
    match ty {
        // every width boundary of the writer's 1/2/4/8-byte integer encodings
        Ty::U => vec![Val::U(1), Val::U(0), Val::U(0xff), Val::U(0x100), Val::U(0xffff), Val::U(0x10000), Val::U(0xffff_ffff), Val::U(1 << 32), Val::U(u64::MAX)],
        Ty::I => vec![
            Val::I(-2),
            Val::I(0),
            Val::I(127),
            Val::I(-128),
            Val::I(128),
            Val::I(-129),
            Val::I(32767),
            Val::I(32768),
            Val::I(-32768),
            Val::I(-32769),
            Val::I((1 << 31) - 1),
            Val::I(1 << 31),
            Val::I((1 << 32) - 1),
            Val::I(-(1 << 31)),
            Val::I(-(1 << 31) - 1),
            Val::I(i64::MIN),
            Val::I(i64::MAX),
        ],
        Ty::F => vec![
            Val::F(1.5f64.to_bits()),
            Val::F(0f64.to_bits()),
            Val::F((-0f64).to_bits()),
            Val::F(f64::INFINITY.to_bits()),
            Val::F(0x7ff8000000000001),
            Val::F(0x7ff0000000000001),
            Val::F(5e-324f64.to_bits()),
        ],
        Ty::S => {
            let mut v = vec![Val::S("a".into()), Val::S("".into()), Val::S("é".into()), Val::S("0123456789abcdefghij".into())];
            if big {
                v.push(Val::S("x".repeat(127)));
                v.push(Val::S("y".repeat(128)));
            }
            v
        }
        Ty::B => {
            let mut v = vec![Val::B(vec![0x42]), Val::B(vec![]), Val::B(vec![0x81, 0x80]), Val::B((0..40u8).collect())];
            if big {
                v.push(Val::B(vec![0xab; 126]));
                v.push(Val::B(vec![0xcd; 127]));
                v.push(Val::B(vec![0xef; 128]));
            }
            v
        }
        Ty::Master => vec![],
    }
}

/// All assignments over `slots` (slot i has `slots[i]` alternatives, 0 = default) with at most `max_dev`
/// non-default entries, fewest deviations first.
pub fn deviations(slots: &[usize], max_dev: usize, f: &mut dyn FnMut(&[usize]) -> bool) {
    let mut cur = vec![0usize; slots.len()];
    for d in 0..=max_dev.min(slots.len()) {
        if !dev_rec(slots, d, 0, &mut cur, f) {
            return;
        }
    }
}

fn dev_rec(slots: &[usize], left: usize, from: usize, cur: &mut Vec<usize>, f: &mut dyn FnMut(&[usize]) -> bool) -> bool {
    if left == 0 {
        return f(cur);
    }
    for i in from..slots.len() {
        for alt in 1..slots[i] {
            cur[i] = alt;
            if !dev_rec(slots, left - 1, i + 1, cur, f) {
                return false;
            }
        }
        cur[i] = 0;
    }
    true
}

/// leaves of a forest in DFS order (mutable access by index)
pub fn leaf_types(rs: &RefSpec, doc: &[Node]) -> Vec<Ty> {
    let mut v = Vec::new();
    crate::refmodel::visit(doc, &mut |n, _| {
        if let Kind::Leaf { val, .. } = &n.kind {
            let _ = rs;
            v.push(val.ty());
        }
    }, 0);
    v
}

pub fn set_leaf_vals(doc: &mut [Node], vals: &[Option<Val>]) {
    let mut i = 0;
    crate::refmodel::visit_mut(doc, &mut |n| {
        if let Kind::Leaf { val, raw } = &mut n.kind {
            if let Some(v) = &vals[i] {
                *val = v.clone();
                *raw = v.canonical_bytes();
            }
            i += 1;
        }
    });
}

/// Apply master size encodings in DFS order of masters.
pub fn set_master_sizes(doc: &mut [Node], sizes: &[SizeEnc]) {
    let mut i = 0;
    crate::refmodel::visit_mut(doc, &mut |n| {
        if n.is_master() {
            n.size = sizes[i];
            i += 1;
        }
    });
}

pub fn count_masters(doc: &[Node]) -> usize {
    doc.iter().map(|n| n.masters_count()).sum()
}

pub fn count_nodes(doc: &[Node]) -> usize {
    doc.iter().map(|n| n.count()).sum()
}

/// all subsets of 0..m as bitmasks, fewest bits first
pub fn subsets_by_size(m: usize) -> Vec<u32> {
    let mut v: Vec<u32> = (0..(1u32 << m)).collect();
    v.sort_by_key(|x| (x.count_ones(), *x));
    v
}

/// All compositions of `len` (ordered sums), as step lists; 2^(len-1) of them.
pub fn compositions(len: usize, f: &mut dyn FnMut(&[usize]) -> bool) {
    if len == 0 {
        f(&[]);
        return;
    }
    let mut parts: Vec<usize> = Vec::new();
    for mask in 0u64..(1u64 << (len - 1)) {
        parts.clear();
        let mut run = 1;
        for i in 0..len - 1 {
            if mask >> i & 1 == 1 {
                parts.push(run);
                run = 1;
            } else {
                run += 1;
            }
        }
        parts.push(run);
        if !f(&parts) {
            return;
        }
    }
}

/// does any global element appear as the first element after an unknown-size master's last descendant?
/// (the inherently ambiguous case excluded by C07)
pub fn has_ambiguous_global_after_unknown(rs: &RefSpec, doc: &[Node]) -> bool {
    // walk siblings: if a node N (or the last-descendant chain of N) contains an unknown-size master that ends
    // exactly at N's end, and the next sibling (or the next element after an ancestor) is global → ambiguous.
    fn ends_with_unknown(n: &Node) -> bool {
        // a known-size master ends by byte count, which also ends every unknown-size master inside it
        n.is_master() && matches!(n.size, SizeEnc::Unknown(_))
    }
    fn rec(rs: &RefSpec, sibs: &[Node]) -> bool {
        for i in 0..sibs.len() {
            // (an element with an id outside the specification never ends a master either)
            if i + 1 < sibs.len() && ends_with_unknown(&sibs[i]) && (rs.ty(sibs[i + 1].id).is_none() || rs.is_global(sibs[i + 1].id)) {
                return true;
            }
            if let Kind::Master(ch) = &sibs[i].kind {
                if rec(rs, ch) {
                    return true;
                }
            }
        }
        false
    }
    rec(rs, doc)
}

pub fn path_has_glob(p: &[PP]) -> bool {
    p.iter().any(|x| matches!(x, PP::Glob(..)))
}
