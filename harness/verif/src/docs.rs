//! The standard document corpus T∘E (DESIGN §3.2) and its single mutations M.

use crate::ctx::Ctx;
use crate::gen::{self, ForestGen, Seq};
use crate::refmodel::{Kind, Node, SizeEnc, Val};
use crate::spec::{RefSpec, Ty};

#[derive(Clone)]
pub struct DocParams {
    pub max_nodes: usize,
    pub globals: Vec<u64>,
    pub exclude: Vec<u64>,
    /// enumerate all 2^m known/unknown choices for the m masters (otherwise all known)
    pub unknown_subsets: bool,
    /// max number of deviations among: master width 8, leaf size width 2/8, payload class
    pub devs: usize,
    /// include payload value classes as deviations
    pub payload_classes: bool,
    /// include the 126/127/128-byte payload classes
    pub big_payloads: bool,
    /// include non-canonical raw payload encodings (reader-side corpora only)
    pub noncanonical: bool,
    /// include size-field width deviations
    pub width_devs: bool,
    /// also enumerate the hand-written deep documents (five masters deep, followers at every level)
    pub extras: bool,
    /// width deviations range over every width 1..=8 (instead of master 8 / leaf 2,8)
    pub all_widths: bool,
}

impl DocParams {
    pub fn plain(max_nodes: usize) -> DocParams {
        DocParams { max_nodes, globals: vec![], exclude: vec![], unknown_subsets: false, devs: 0, payload_classes: false, big_payloads: false, noncanonical: false, width_devs: false, extras: false, all_widths: false }
    }
}

#[derive(Clone, Debug)]
pub enum PayloadAlt {
    Val(Val),
    Raw(Vec<u8>),
}

pub fn payload_alts(ty: Ty, p: &DocParams) -> Vec<PayloadAlt> {
    let mut v: Vec<PayloadAlt> = Vec::new();
    if p.payload_classes {
        v.extend(gen::payload_classes(ty, p.big_payloads).into_iter().map(PayloadAlt::Val));
    } else {
        v.push(PayloadAlt::Val(gen::default_val(ty)));
    }
    if p.noncanonical {
        match ty {
            Ty::U => {
                v.push(PayloadAlt::Raw(vec![]));
                v.push(PayloadAlt::Raw(vec![0, 0, 1]));
                v.push(PayloadAlt::Raw(vec![0, 0, 0, 0, 0x81]));
                v.push(PayloadAlt::Raw(vec![0x80, 0, 0, 0, 0, 0, 1]));
            }
            Ty::I => {
                v.push(PayloadAlt::Raw(vec![]));
                v.push(PayloadAlt::Raw(vec![0xff, 0xff, 0xfe]));
                v.push(PayloadAlt::Raw(vec![0, 0, 0, 0, 0, 0x80]));
                v.push(PayloadAlt::Raw(vec![0x80, 0, 0, 0, 0, 0, 0]));
                // zero-padded positive values whose minimal two's-complement width is larger than their magnitude suggests
                v.push(PayloadAlt::Raw(vec![0, 0x80, 0, 0, 0]));
                v.push(PayloadAlt::Raw(vec![0, 0xff, 0xff, 0xff, 0xff]));
                v.push(PayloadAlt::Raw(vec![0, 0x80, 0]));
                v.push(PayloadAlt::Raw(vec![0, 0x80]));
            }
            Ty::F => {
                v.push(PayloadAlt::Raw(1.5f32.to_be_bytes().to_vec()));
                v.push(PayloadAlt::Raw(f32::NAN.to_be_bytes().to_vec()));
            }
            _ => {}
        }
    }
    v
}

/// Enumerate documents. `f` returns false to stop.
pub fn for_each_doc(ctx: &mut Ctx, rs: &RefSpec, p: &DocParams, f: &mut dyn FnMut(&mut Ctx, &Vec<Node>) -> bool) {
    let g = ForestGen { rs, max_nodes: p.max_nodes, globals: p.globals.clone(), exclude: p.exclude.clone() };
    let mut counter = 0u64;
    let mut seqs: Vec<Seq> = Vec::new();
    g.run(&mut |s| {
        if ctx.mine(counter) {
            seqs.push(s.clone());
        }
        counter += 1;
        true
    });
    if p.extras {
        for (i, s) in spine_seqs().into_iter().enumerate() {
            if ctx.mine(i as u64) && !s.iter().any(|x| p.exclude.contains(&x.1)) {
                seqs.push(s);
            }
        }
    }
    for seq in seqs {
        if ctx.should_stop() {
            return;
        }
        let base = gen::build(rs, &seq);
        let m = gen::count_masters(&base);
        let leaf_tys = gen::leaf_types(rs, &base);
        let subsets: Vec<u32> = if p.unknown_subsets { gen::subsets_by_size(m) } else { vec![0] };
        // slots: masters (alt 1 = wide field), then per leaf: payload alternatives, then per leaf: size width (3 alts)
        let alts: Vec<Vec<PayloadAlt>> = leaf_tys.iter().map(|t| payload_alts(*t, p)).collect();
        let mut slots: Vec<usize> = Vec::new();
        for _ in 0..m {
            slots.push(if p.width_devs { if p.all_widths { 9 } else { 2 } } else { 1 });
        }
        for a in &alts {
            slots.push(a.len());
        }
        for _ in 0..leaf_tys.len() {
            slots.push(if p.width_devs { if p.all_widths { 9 } else { 3 } } else { 1 });
        }
        for sub in subsets {
            let mut go = true;
            gen::deviations(&slots, p.devs, &mut |choice| {
                let mut doc = base.clone();
                let mut mi = 0;
                let mut li = 0;
                let nl = leaf_tys.len();
                crate::refmodel::visit_mut(&mut doc, &mut |n| match &mut n.kind {
                    Kind::Master(_) => {
                        let unk = sub >> mi & 1 == 1;
                        let alt = choice[mi];
                        n.size = match (unk, alt) {
                            (false, 0) => SizeEnc::Min,
                            (false, a) => SizeEnc::Width(if p.all_widths { a as u8 } else { 8 }),
                            (true, 0) => SizeEnc::Unknown(1),
                            (true, _) => SizeEnc::Unknown(8),
                        };
                        mi += 1;
                    }
                    Kind::Leaf { val, raw } => {
                        match &alts[li][choice[m + li]] {
                            PayloadAlt::Val(v) => {
                                *val = v.clone();
                                *raw = v.canonical_bytes();
                            }
                            PayloadAlt::Raw(r) => {
                                *val = Val::decode(val.ty(), r).expect("machinery: bad raw alt");
                                *raw = r.clone();
                            }
                        }
                        n.size = match choice[m + nl + li] {
                            0 => SizeEnc::Min,
                            a if p.all_widths => SizeEnc::Width(a as u8),
                            1 => SizeEnc::Width(2),
                            _ => SizeEnc::Width(8),
                        };
                        li += 1;
                    }
                    Kind::RawLeaf(_) => {}
                });
                go = f(ctx, &doc);
                go
            });
            if !go {
                return;
            }
        }
    }
}

#[derive(Clone, Copy, Debug)]
pub enum MutKind {
    Replace,
    Delete,
    Truncate,
    /// suffix starting at an element boundary (mid-document start)
    Suffix,
}

/// Single mutations of `bytes`. `boundaries`: element tag_start offsets (for Suffix).
pub fn for_each_mutation(bytes: &[u8], boundaries: &[usize], alpha: &[u8], kinds: &[MutKind], f: &mut dyn FnMut(&[u8], MutKind, usize) -> bool) {
    let mut buf: Vec<u8> = Vec::with_capacity(bytes.len());
    for k in kinds {
        match k {
            MutKind::Replace => {
                for pos in 0..bytes.len() {
                    for a in alpha {
                        if *a == bytes[pos] {
                            continue;
                        }
                        buf.clear();
                        buf.extend_from_slice(bytes);
                        buf[pos] = *a;
                        if !f(&buf, *k, pos) {
                            return;
                        }
                    }
                }
            }
            MutKind::Delete => {
                for pos in 0..bytes.len() {
                    buf.clear();
                    buf.extend_from_slice(&bytes[..pos]);
                    buf.extend_from_slice(&bytes[pos + 1..]);
                    if !f(&buf, *k, pos) {
                        return;
                    }
                }
            }
            MutKind::Truncate => {
                for pos in 0..bytes.len() {
                    if !f(&bytes[..pos], *k, pos) {
                        return;
                    }
                }
            }
            MutKind::Suffix => {
                for b in boundaries {
                    if *b == 0 {
                        continue;
                    }
                    if !f(&bytes[*b..], *k, *b) {
                        return;
                    }
                }
            }
        }
    }
}

pub fn doc_short(rs: &RefSpec, doc: &[Node]) -> String {
    doc.iter().map(|n| n.short(rs)).collect::<Vec<_>>().join(" ")
}

/// Hand-written deep documents over V: the full five-master spine, with followers at every enclosing level.
pub fn spine_seqs() -> Vec<Seq> {
    use crate::spec::*;
    let spine: [(u64, u64); 5] = [(ID_ROOT, ID_U), (ID_M, ID_MU), (ID_N, ID_NU), (ID_K, ID_KU), (ID_L, ID_LB)];
    let mut out: Vec<Seq> = Vec::new();
    // bare spine down to depth d, then one follower leaf at level j (child of the master at depth j-1)
    for d in 2..=5usize {
        for j in 1..=d {
            let mut s: Seq = (0..d).map(|i| (i as u8, spine[i].0)).collect();
            s.push((d as u8, spine[d - 1].1));
            if j < d {
                s.push((j as u8, spine[j - 1].1));
            }
            out.push(s);
        }
    }
    // spine with a leaf before and after the nested master at every level
    let mut s: Seq = Vec::new();
    for i in 0..5 {
        s.push((i as u8, spine[i].0));
        if i < 4 {
            s.push((i as u8 + 1, spine[i].1));
        }
    }
    s.push((5, ID_LB));
    for i in (0..4).rev() {
        s.push((i as u8 + 1, spine[i].1));
    }
    out.push(s);
    // a new instance of an ancestor and a second root after a deep spine
    out.push(vec![(0, ID_ROOT), (1, ID_M), (2, ID_N), (3, ID_K), (4, ID_KU), (2, ID_N), (3, ID_NU), (1, ID_M), (0, ID_ROOT), (1, ID_U)]);
    out.push(vec![(0, ID_EBML), (1, ID_EU), (0, ID_ROOT), (1, ID_M), (2, ID_N), (3, ID_NU), (0, ID_EBML), (0, ID_ROOT)]);
    out.push(vec![(0, ID_ROOT), (1, ID_P), (2, ID_PU), (1, ID_M), (2, ID_MU), (1, ID_P), (1, ID_M), (2, ID_N), (1, ID_P), (2, ID_PU)]);
    out
}

/// Documents whose payload or master content length sits on a size-field boundary (2^(7k)-1 and neighbours).
pub fn size_boundary_docs() -> Vec<Vec<Node>> {
    use crate::spec::*;
    let mut out = Vec::new();
    for len in [124usize, 125, 126, 127, 128, 16379, 16380, 16381, 16382, 16383, 16384] {
        out.push(vec![Node::master(ID_ROOT, vec![Node::leaf(ID_B, Val::B(vec![0x5a; len]))])]);
    }
    for len in [126usize, 127, 128, 16383] {
        out.push(vec![Node::master(ID_ROOT, vec![Node::leaf(ID_S, Val::S("s".repeat(len)))])]);
        // nested: the inner master's content hits the boundary, and another element follows
        out.push(vec![Node::master(ID_ROOT, vec![Node::master(ID_M, vec![Node::master(ID_N, vec![Node::master(ID_K, vec![Node::master(ID_L, vec![Node::leaf(ID_LB, Val::B(vec![0xa5; len - 2]))])])])]), Node::leaf(ID_U, Val::U(9))])]);
    }
    // an inner master with a 1-byte size field whose content is 123..127 bytes, nested in known-size masters
    // (its header pushes the outer content across the boundary as well)
    for p in 104usize..=110 {
        let mut m = Node::master(ID_M, vec![Node::master(ID_N, vec![Node::master(ID_K, vec![Node::master(ID_L, vec![Node::leaf(ID_LB, Val::B(vec![0x3c; p]))])])])]);
        m.size = SizeEnc::Width(1);
        out.push(vec![Node::master(ID_ROOT, vec![m])]);
    }
    // the same with the 1-byte size field on the innermost master (only leaf bytes below it)
    for p in 120usize..=126 {
        let mut l = Node::master(ID_L, vec![Node::leaf(ID_LB, Val::B(vec![0x3d; p]))]);
        l.size = SizeEnc::Width(1);
        out.push(vec![Node::master(ID_ROOT, vec![Node::master(ID_M, vec![Node::master(ID_N, vec![Node::master(ID_K, vec![l])])])])]);
    }
    // a master whose content is exactly 2^7-1 / 2^14-1 bytes FOLLOWED by an element that never ends an unknown-size
    // master (a global element, an unknown id): if its size came out as the reserved all-ones value, this is where
    // it shows (a following sibling or parent would still close it at the right place)
    for len in [125usize, 16380] {
        let void = Node::leaf(ID_VOID, Val::B(vec![0x76]));
        out.push(vec![Node::master(ID_ROOT, vec![Node::leaf(ID_B, Val::B(vec![0x5b; len]))]), void.clone()]);
        out.push(vec![Node::master(ID_ROOT, vec![Node::leaf(ID_B, Val::B(vec![0x5b; len]))]), Node { id: 0xf2, kind: Kind::RawLeaf(vec![0x11; 3]), size: SizeEnc::Min }]);
        out.push(vec![Node::master(ID_ROOT, vec![Node::master(ID_M, vec![Node::master(ID_N, vec![Node::master(ID_K, vec![Node::master(ID_L, vec![Node::leaf(ID_LB, Val::B(vec![0xa6; len]))]), void.clone()]), void.clone()]), void.clone()]), void.clone(), Node::leaf(ID_U, Val::U(9))])]);
    }
    // unknown-id raw tag with boundary payload (reader must allow unknown ids)
    out.push(vec![Node::master(ID_ROOT, vec![Node { id: 0xf2, kind: Kind::RawLeaf(vec![0x11; 127]), size: SizeEnc::Min }])]);
    out.push(vec![Node::master(ID_ROOT, vec![Node { id: 0x4f00, kind: Kind::RawLeaf(vec![]), size: SizeEnc::Min }, Node { id: 0x0100000000000003, kind: Kind::RawLeaf(vec![1, 2, 3]), size: SizeEnc::Min }])]);
    out
}

/// Documents in which a payload of 20..45 bytes (larger than a 16-byte initial capacity: the reader's buffer has to
/// grow while masters are open) sits inside one to five known-size masters, away from the start of the stream, and
/// is followed by elements inside and right behind those masters (global ones too).
/// Root[leaf] (Root known- and unknown-size) for every payload class of every data type x every explicit size-field
/// width 1..8 on the leaf.
pub fn payload_width_docs() -> Vec<Vec<Node>> {
    use crate::spec::*;
    let mut out = Vec::new();
    for (id, ty) in [(ID_U, Ty::U), (ID_I, Ty::I), (ID_F, Ty::F), (ID_S, Ty::S), (ID_B, Ty::B)] {
        for v in crate::gen::payload_classes(ty, true) {
            for w in 1..=8u8 {
                let mut leaf = Node::leaf(id, v.clone());
                leaf.size = SizeEnc::Width(w);
                out.push(vec![Node::master(ID_ROOT, vec![leaf.clone()])]);
                let mut unk = Node::master(ID_ROOT, vec![leaf]);
                unk.size = SizeEnc::Unknown(8);
                out.push(vec![unk]);
            }
        }
    }
    out
}

pub fn doc_has_raw(doc: &[Node]) -> bool {
    let mut r = false;
    crate::refmodel::visit(doc, &mut |n, _| {
        if matches!(n.kind, Kind::RawLeaf(_)) {
            r = true;
        }
    }, 0);
    r
}

pub fn grown_buffer_docs() -> Vec<Vec<Node>> {
    use crate::spec::*;
    let lb = |n: usize| Node::leaf(ID_LB, Val::B(vec![0x6c; n]));
    let void = |n: usize| Node::leaf(ID_VOID, Val::B(vec![0x76; n]));
    let spine = |inner: Vec<Node>, ku: bool| {
        let mut k = vec![Node::master(ID_L, inner)];
        if ku {
            k.push(Node::leaf(ID_KU, Val::U(3)));
        }
        Node::master(ID_M, vec![Node::master(ID_N, vec![Node::master(ID_K, k)])])
    };
    let mut out = vec![
        vec![Node::master(ID_ROOT, vec![spine(vec![lb(40)], false), void(1), void(1), Node::master(ID_M, vec![Node::leaf(ID_MU, Val::U(1))])])],
        vec![Node::master(ID_ROOT, vec![Node::leaf(ID_B, Val::B(vec![0x62; 40])), Node::leaf(ID_U, Val::U(1)), void(1)])],
        vec![Node::master(ID_EBML, vec![Node::leaf(ID_EU, Val::U(1))]), Node::master(ID_ROOT, vec![spine(vec![lb(45)], true), Node::leaf(ID_U, Val::U(2)), void(2)])],
        vec![Node::master(ID_ROOT, vec![Node::leaf(ID_S, Val::S("s".repeat(33))), Node::master(ID_M, vec![Node::leaf(ID_MU, Val::U(1))])]), Node::master(ID_ROOT, vec![Node::leaf(ID_U, Val::U(1))])],
        vec![Node::master(ID_ROOT, vec![Node::master(ID_M, vec![void(20), Node::leaf(ID_MU, Val::U(1))]), Node::leaf(ID_U, Val::U(1))])],
        vec![Node::master(ID_ROOT, vec![Node::leaf(ID_U, Val::U(1)), Node::master(ID_M, vec![Node::leaf(ID_MU, Val::U(1)), Node::master(ID_N, vec![Node { id: 0xf2, kind: Kind::RawLeaf(vec![0x72; 30]), size: SizeEnc::Min }, Node::leaf(ID_NU, Val::U(1))]), Node::leaf(ID_MU, Val::U(2))]), Node::leaf(ID_U, Val::U(2))])],
    ];
    // empty global elements right behind the masters that end with the large payload (2-byte elements: whatever the
    // reader believes is left of those masters, one of them fits)
    out.push(vec![Node::master(ID_ROOT, vec![spine(vec![lb(40)], false), void(0), void(0), void(0), Node::master(ID_M, vec![Node::leaf(ID_MU, Val::U(1))])])]);
    out.push(vec![Node::master(ID_ROOT, vec![Node::master(ID_M, vec![Node::leaf(ID_MU, Val::U(1)), void(21)]), void(0), void(0), void(1), Node::leaf(ID_U, Val::U(1))])]);
    // the same with the outermost master of unknown size
    let mut unk = out[0].clone();
    unk[0].size = SizeEnc::Unknown(1);
    out.push(unk);
    let mut unk = out[2].clone();
    unk[1].size = SizeEnc::Unknown(8);
    out.push(unk);
    out
}

/// Documents longer than the reader's 64 KiB buffer whose elements with 9..16-byte headers (8-byte size fields,
/// the 8-byte id of L) sit at every alignment around the buffer boundary. `variant` selects known / unknown-size
/// encodings of the masters around them.
pub fn buffer_boundary_docs(pads: usize) -> Vec<Vec<Node>> {
    use crate::spec::*;
    let mut out = Vec::new();
    for pad in 0..pads {
        for variant in 0..4u8 {
            let filler = Node::leaf(ID_B, Val::B(vec![0x6b; 65536 - 48 + pad]));
            let mut mu = Node::leaf(ID_MU, Val::U(5));
            mu.size = SizeEnc::Width(8);
            let mut l = Node::master(ID_L, vec![Node::leaf(ID_LB, Val::B(vec![1, 2]))]);
            l.size = if variant & 2 != 0 { SizeEnc::Unknown(8) } else { SizeEnc::Width(8) };
            let mut m = Node::master(ID_M, vec![mu, Node::master(ID_N, vec![Node::master(ID_K, vec![l])])]);
            m.size = if variant & 2 != 0 { SizeEnc::Unknown(1) } else { SizeEnc::Width(8) };
            let mut u = Node::leaf(ID_U, Val::U(77));
            u.size = SizeEnc::Width(7);
            let mut root = Node::master(ID_ROOT, vec![filler, m, u, Node::leaf(ID_S, Val::S("tail".into()))]);
            if variant & 1 != 0 {
                root.size = SizeEnc::Unknown(8);
            }
            out.push(vec![root]);
        }
    }
    out
}
