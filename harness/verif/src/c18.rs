//! C18 — derived specifications mean what was declared and are internally consistent.

use std::panic::{catch_unwind, AssertUnwindSafe};

use crate::ctx::Ctx;
use crate::decls::{self, Decl, Fault};
use crate::ctx::panic_msg;

pub const GEN_DIR: &str = "/verif/harness/c18gen";
pub const OUT_DIR: &str = "/verif/target/c18";
pub const CHUNKS: usize = 16;

pub fn decl_space(quick: bool) -> Vec<Decl> {
    if quick {
        decls::enumerate(3, 9)
    } else {
        decls::enumerate(3, 1)
    }
}

/// faults compiled one by one through rustc (expected to fail): all rustc-only ones of a few declarations, plus
/// one macro-rejected fault per kind as an end-to-end sample
pub fn rustc_negatives(space: &[Decl], quick: bool) -> Vec<Fault> {
    let mut out: Vec<Fault> = Vec::new();
    let picks: Vec<usize> = if quick { vec![space.len() / 2] } else { (0..space.len()).step_by((space.len() / 12).max(1)).collect() };
    for (n, di) in picks.iter().enumerate() {
        let fs = decls::faults(&space[*di]);
        for f in &fs {
            if f.rustc_only {
                out.push(f.clone());
            }
        }
        if n == 0 {
            let mut seen: Vec<&str> = Vec::new();
            for f in &fs {
                if !f.rustc_only && !seen.contains(&f.kind) && f.kind != "cyclic-parent" && f.kind != "self-parent" {
                    seen.push(f.kind);
                    out.push(f.clone());
                }
            }
        }
    }
    out
}

pub fn generate(quick: bool) -> std::io::Result<()> {
    let space = decl_space(quick);
    let neg = rustc_negatives(&space, quick);
    decls::generate_crate(GEN_DIR, &space, CHUNKS, &neg)?;
    std::fs::create_dir_all(OUT_DIR)?;
    let mut list = String::new();
    for (k, f) in neg.iter().enumerate() {
        list.push_str(&format!("{} {} {}\n", k, f.kind, f.front));
    }
    std::fs::write(format!("{}/neg_list.txt", OUT_DIR), list)?;
    println!("generated {} declarations in {} chunks, {} must-fail programs", space.len(), CHUNKS, neg.len());
    Ok(())
}

fn norm_tokens(s: &str) -> String {
    s.split_whitespace().collect::<Vec<_>>().join(" ")
}

pub fn run(ctx: &mut Ctx) {
    let quick = ctx.quick();
    let space = decl_space(quick);
    ctx.meta("rule", "cases: (declaration, aspect). D+: every well-formed declaration with <= 3 user variants (variant 0..2: any of the six data types, parent = none or any earlier Master variant, optional trailing global placeholder with bounds rotating over (1-2), (-), (1-), (-3), (0-1); ids of 1, 2, 3 and 8 bytes), each rendered in BOTH front-ends. Aspects: (1) both front-ends expanded by the macro implementation called as a library give token-identical output; (2) the declaration compiled through the REAL proc-macro by rustc (generated crate, 16 chunks) and its generated code compared, for every declared id and probe ids (0, 1, neighbours, 0xbf, 0xec, 0xff, u64::MAX), against the declaration table: get_tag_data_type, get_path_by_id, all six constructors + raw, get_id, all six accessors, Void/Crc32/RawTag present, and a write->read smoke run that must not panic; (3) D-: every single-fault perturbation (duplicate id incl. 0xbf/0xec, unknown parent, non-master parent of a leaf / of a master, path that skips or extends beyond the parent's path for a leaf / a master, cyclic parents, zero maximum, adjacent placeholders, missing id / data_type, unknown data type) in both front-ends through the library must be rejected with an error; faults only rustc can reject (unknown attribute) and one sample per kind are compiled one by one and must fail. Non-trivial: declarations with >= 1 path.");
    ctx.meta("bounds", &format!("{} declarations ({}), all single faults", space.len(), if quick { "every declaration with <= 2 variants and every 9th with 3" } else { "every declaration with <= 3 variants" }));
    ctx.meta("assumptions", "rustc and the compiled proc-macro are the real ones; the library-mode expansion includes the same source files by path");
    for c in ["frontends_token_identical", "compiled_declarations_ok", "faults_rejected", "must_fail_programs_failed"] {
        ctx.expect_nonzero(c);
    }
    // (0) build status of the generated crate (written by pre_C18.sh)
    let status = std::fs::read_to_string(format!("{}/build_status.txt", OUT_DIR)).unwrap_or_default();
    let built = status.lines().next().map(|l| l.trim() == "0").unwrap_or(false);
    if ctx.mine(0) {
        let d = || "generated crate c18gen (all chunks)".to_string();
        if ctx.enter(&d) {
            if status.is_empty() {
                panic!("machinery: {}/build_status.txt missing (pre_C18.sh did not run)", OUT_DIR);
            }
            if !built {
                let log = std::fs::read_to_string(format!("{}/build.log", OUT_DIR)).unwrap_or_default();
                let errs: Vec<&str> = log.lines().filter(|l| l.starts_with("error")).take(4).collect();
                ctx.violation("generated-code-does-not-compile", &d, &format!("cargo build of accepted declarations failed: {}", errs.join(" | ")));
            }
            ctx.leave();
        }
        // must-fail programs
        let list = std::fs::read_to_string(format!("{}/neg_list.txt", OUT_DIR)).unwrap_or_default();
        let res = std::fs::read_to_string(format!("{}/neg_results.txt", OUT_DIR)).unwrap_or_default();
        for line in list.lines() {
            let f: Vec<&str> = line.split_whitespace().collect();
            if f.len() < 3 {
                continue;
            }
            let d = || format!("must-fail program neg{} ({} via {} front-end) compiled by rustc", f[0], f[1], f[2]);
            if !ctx.enter(&d) {
                continue;
            }
            let r = res.lines().find(|l| l.split_whitespace().next() == Some(f[0]));
            match r {
                None => panic!("machinery: no compile result for neg{}", f[0]),
                Some(l) => {
                    let code = l.split_whitespace().nth(1).unwrap_or("?");
                    if code == "0" {
                        ctx.violation(&format!("broken-declaration-compiles/{}", f[1]), &d, "rustc accepted it");
                    } else {
                        ctx.count("must_fail_programs_failed", 1);
                    }
                }
            }
            ctx.validated += 1;
            ctx.leave();
        }
    }
    // (2) results of the compiled chunks
    let shard = ctx.shard as usize;
    if built && shard < CHUNKS && ctx.nshards as usize >= CHUNKS {
        let exe = format!("{}/debug/chunk{}", OUT_DIR, shard);
        let out = std::process::Command::new(&exe).output();
        match out {
            Err(e) => panic!("machinery: cannot run {}: {}", exe, e),
            Ok(o) => {
                let text = String::from_utf8_lossy(&o.stdout).to_string();
                let done = text.lines().any(|l| l == "CHUNK-DONE");
                for (k, dcl) in space.iter().enumerate() {
                    if k % CHUNKS != shard {
                        continue;
                    }
                    let d = || format!("declaration #{} {{{}}} compiled through the real proc-macro (both front-ends)", k, dcl.short());
                    if !ctx.enter(&d) {
                        continue;
                    }
                    if dcl.vars.iter().any(|v| !v.path.is_empty()) {
                        ctx.nontrivial();
                    }
                    ctx.transitions += 1;
                    let lines: Vec<&str> = text.lines().filter(|l| l.starts_with(&format!("DECL {} ", k))).collect();
                    if lines.iter().any(|l| l.ends_with(" OK")) && lines.len() == 1 {
                        ctx.count("compiled_declarations_ok", 1);
                    } else if lines.is_empty() {
                        ctx.violation(if done { "generated-code/declaration-not-reported" } else { "generated-code/checker-crashed" }, &d, &format!("chunk exit {:?}", o.status.code()));
                    } else {
                        let msg = lines[0].splitn(4, ' ').nth(3).unwrap_or("");
                        let key = if msg.contains("panicked") { "generated-code/smoke-run-panics" } else if msg.contains("smoke") { "generated-code/smoke-run-fails" } else if msg.contains("get_path_by_id") { "generated-code/path-differs-from-declaration" } else if msg.contains("get_tag_data_type") { "generated-code/type-differs-from-declaration" } else if msg.contains("constructor") { "generated-code/constructor-type-mismatch" } else if msg.contains("accessor") { "generated-code/accessor-mismatch" } else { "generated-code/other-mismatch" };
                        ctx.violation(key, &d, &lines.iter().map(|l| l.to_string()).collect::<Vec<_>>().join(" | "));
                    }
                    ctx.validated += 1;
                    ctx.leave();
                }
            }
        }
    }
    // (1) + (3) library mode
    for (k, dcl) in space.iter().enumerate() {
        if !ctx.mine(k as u64) || ctx.should_stop() {
            continue;
        }
        let d = || format!("declaration #{} {{{}}}: both front-ends expanded as a library", k, dcl.short());
        if ctx.enter(&d) {
            ctx.transitions += 2;
            let a = catch_unwind(AssertUnwindSafe(|| derivelib::expand_attr(&dcl.attr_item("E"))));
            let e = catch_unwind(AssertUnwindSafe(|| derivelib::expand_easy(&dcl.easy_body("E"))));
            match (a, e) {
                (Ok(Ok(a)), Ok(Ok(e))) => {
                    if norm_tokens(&a) == norm_tokens(&e) {
                        ctx.count("frontends_token_identical", 1);
                    } else {
                        ctx.violation("front-ends-generate-different-code", &d, &format!("attr: {} ... | easy: {} ...", &a[..a.len().min(300)], &e[..e.len().min(300)]));
                    }
                }
                (a, e) => ctx.violation("well-formed-declaration-rejected", &d, &format!("attribute front-end: {:?} | easy_ebml front-end: {:?}", a.map(|r| r.map(|_| "ok")).map_err(panic_msg), e.map(|r| r.map(|_| "ok")).map_err(panic_msg))),
            }
            ctx.validated += 1;
            ctx.leave();
        }
        for f in decls::faults(dcl) {
            if f.rustc_only {
                continue;
            }
            let d = || format!("declaration #{} {{{}}} with fault {} ({} front-end): {}", k, dcl.short(), f.kind, f.front, f.src.replace('\n', " "));
            if !ctx.enter(&d) {
                continue;
            }
            ctx.nontrivial();
            ctx.transitions += 1;
            let r = catch_unwind(AssertUnwindSafe(|| if f.front == "attr" { derivelib::expand_attr(&f.src) } else { derivelib::expand_easy(&f.src) }));
            ctx.outcome(&(f.kind, f.front, match &r { Ok(Err(e)) => e.chars().take(40).collect::<String>(), Ok(Ok(_)) => "accepted".to_string(), Err(_) => "panic".to_string() }));
            match r {
                Ok(Err(_)) => ctx.count("faults_rejected", 1),
                Err(p) => {
                    // a panicking macro still fails the compilation, but not with a diagnostic
                    ctx.count("faults_rejected_by_macro_panic", 1);
                    ctx.violation(&format!("broken-declaration-makes-the-macro-panic/{}", f.kind), &d, &panic_msg(p));
                }
                Ok(Ok(_)) => ctx.violation(&format!("broken-declaration-accepted/{}", f.kind), &d, "the macro produced code instead of a compile error"),
            }
            ctx.validated += 1;
            ctx.leave();
        }
    }
}
