//! C18: the declaration space D (well-formed declarations and single-fault perturbations), rendered in both
//! macro front-ends, plus the generator of the `c18gen` crate that is compiled through the real proc-macro.

use std::fmt::Write as _;

/// data types in the order the generated checker numbers them
#[derive(Clone, Copy, Debug, PartialEq, Eq)]
pub enum Ty {
    Master,
    U,
    I,
    F,
    S,
    B,
}

#[derive(Clone, Debug, PartialEq)]
pub enum DPart {
    Ident(String),
    Glob(Option<u64>, Option<u64>),
}

#[derive(Clone, Debug)]
pub struct DVar {
    pub name: String,
    pub ty: Ty,
    pub id: u64,
    pub path: Vec<DPart>,
}

#[derive(Clone, Debug)]
pub struct Decl {
    pub vars: Vec<DVar>,
}

pub fn ty_name(t: Ty) -> &'static str {
    match t {
        Ty::Master => "Master",
        Ty::U => "UnsignedInt",
        Ty::I => "Integer",
        Ty::F => "Float",
        Ty::S => "Utf8",
        Ty::B => "Binary",
    }
}

fn part_src(p: &DPart) -> String {
    match p {
        DPart::Ident(s) => s.clone(),
        DPart::Glob(a, b) => format!("({}-{})", a.map(|x| x.to_string()).unwrap_or_default(), b.map(|x| x.to_string()).unwrap_or_default()),
    }
}

pub fn path_src(p: &[DPart]) -> String {
    p.iter().map(part_src).collect::<Vec<_>>().join("/")
}

impl Decl {
    /// attribute front-end: the enum item WITHOUT the `#[ebml_specification]` attribute line
    pub fn attr_item(&self, name: &str) -> String {
        let mut s = String::new();
        let _ = writeln!(s, "#[derive(Clone, Debug, PartialEq)]\npub enum {} {{", name);
        for v in &self.vars {
            let _ = writeln!(s, "    #[id({:#x})]", v.id);
            let _ = writeln!(s, "    #[data_type(TagDataType::{})]", ty_name(v.ty));
            if !v.path.is_empty() {
                let _ = writeln!(s, "    #[doc_path({})]", path_src(&v.path));
            }
            let _ = writeln!(s, "    {},", v.name);
        }
        s.push_str("}\n");
        s
    }
    /// easy_ebml front-end: the macro body
    pub fn easy_body(&self, name: &str) -> String {
        let mut s = String::new();
        let _ = writeln!(s, "#[derive(Clone, Debug, PartialEq)]\npub enum {} {{", name);
        for v in &self.vars {
            let mut p = path_src(&v.path);
            if !p.is_empty() {
                p.push('/');
            }
            let _ = writeln!(s, "    {}{}: {} = {:#x},", p, v.name, ty_name(v.ty), v.id);
        }
        s.push_str("}\n");
        s
    }
    /// the declaration as a table literal for the generated checker: (id, type index, path parts)
    pub fn table_literal(&self) -> String {
        let idof = |n: &str| self.vars.iter().find(|v| v.name == n).map(|v| v.id).expect("machinery: ident in path");
        let mut rows: Vec<String> = Vec::new();
        let mut row = |id: u64, ty: Ty, path: Vec<String>| {
            rows.push(format!("({:#x}u64, {}u8, &[{}] as &[P])", id, ty as u8, path.join(", ")));
        };
        for v in &self.vars {
            let parts: Vec<String> = v
                .path
                .iter()
                .map(|p| match p {
                    DPart::Ident(n) => format!("P::I({:#x})", idof(n)),
                    DPart::Glob(a, b) => format!("P::G({:?}, {:?})", a, b),
                })
                .collect();
            row(v.id, v.ty, parts);
        }
        row(0xbf, Ty::B, vec!["P::G(Some(1), None)".into()]);
        row(0xec, Ty::B, vec!["P::G(None, None)".into()]);
        format!("&[{}]", rows.join(", "))
    }
    pub fn short(&self) -> String {
        self.vars.iter().map(|v| format!("{}{}{}:{}={:#x}", path_src(&v.path), if v.path.is_empty() { "" } else { "/" }, v.name, ty_name(v.ty), v.id)).collect::<Vec<_>>().join(", ")
    }
}

const TYPES: [Ty; 6] = [Ty::Master, Ty::U, Ty::I, Ty::F, Ty::S, Ty::B];
// ids by declaration position: the positions that can be parents (0 and 2 above all) carry the ids that do not fit
// 32 bits, so that every table that mentions a parent id is exercised with an 8- and a 5-byte id
const IDS: [u64; 4] = [0x0184848484848484, 0x81, 0x0885858585, 0x4082];
const GLOBS: [(Option<u64>, Option<u64>); 6] = [(Some(1), Some(2)), (None, None), (Some(1), None), (None, Some(3)), (Some(0), Some(1)), (Some(2), Some(2))];

/// Every well-formed declaration with <= n_max user variants: variant types from the six data types, parent =
/// none or any earlier Master variant, optional trailing placeholder on each variant's own path.
pub fn enumerate(n_max: usize, stride_last: usize) -> Vec<Decl> {
    let mut out: Vec<Decl> = Vec::new();
    fn rec(cur: &mut Vec<DVar>, n: usize, out: &mut Vec<Decl>) {
        if cur.len() == n {
            out.push(Decl { vars: cur.clone() });
            return;
        }
        let i = cur.len();
        let masters: Vec<usize> = (0..i).filter(|j| cur[*j].ty == Ty::Master).collect();
        for ty in TYPES {
            // parent: none, or an earlier master
            let mut parents: Vec<Option<usize>> = vec![None];
            parents.extend(masters.iter().map(|m| Some(*m)));
            for par in parents {
                for ph in [false, true] {
                    let mut path: Vec<DPart> = match par {
                        None => vec![],
                        Some(j) => {
                            let mut p = cur[j].path.clone();
                            p.push(DPart::Ident(cur[j].name.clone()));
                            p
                        }
                    };
                    if ph {
                        // no two placeholders back to back
                        if matches!(path.last(), Some(DPart::Glob(..))) {
                            continue;
                        }
                        let g = GLOBS[(i + ty as usize + par.map(|x| x + 1).unwrap_or(0)) % GLOBS.len()];
                        path.push(DPart::Glob(g.0, g.1));
                    }
                    cur.push(DVar { name: format!("V{}", i), ty, id: IDS[i], path });
                    rec(cur, n, out);
                    cur.pop();
                }
            }
        }
    }
    for n in 1..=n_max {
        let before = out.len();
        let mut cur = Vec::new();
        rec(&mut cur, n, &mut out);
        if n == n_max && stride_last > 1 {
            // thin out the largest size class deterministically
            let tail: Vec<Decl> = out.drain(before..).collect();
            out.extend(tail.into_iter().enumerate().filter(|(k, _)| k % stride_last == 0).map(|x| x.1));
        }
    }
    // names whose concatenation is ambiguous: the paths A/B and AB (and A/BC, AB/C) are different paths
    {
        let id = |s: &str| DPart::Ident(s.to_string());
        let v = |name: &str, ty: Ty, idv: u64, path: Vec<DPart>| DVar { name: name.to_string(), ty, id: idv, path };
        out.push(Decl { vars: vec![
            v("A", Ty::Master, 0xa1, vec![]),
            v("B", Ty::Master, 0xa2, vec![id("A")]),
            v("AB", Ty::Master, 0xa3, vec![]),
            v("X", Ty::U, 0xa4, vec![id("A"), id("B")]),
            v("Y", Ty::U, 0xa5, vec![id("AB")]),
        ] });
        out.push(Decl { vars: vec![
            v("A", Ty::Master, 0xa1, vec![]),
            v("BC", Ty::Master, 0xa2, vec![id("A")]),
            v("AB", Ty::Master, 0xa3, vec![]),
            v("C", Ty::Master, 0xa6, vec![id("AB")]),
            v("X", Ty::S, 0xa4, vec![id("AB"), id("C")]),
            v("Y", Ty::B, 0xa5, vec![id("A"), id("BC")]),
        ] });
    }
    // the order of the variants carries no meaning: every second declaration lists its variants in reverse, so that
    // children are declared before the masters their paths name
    for (k, d) in out.iter_mut().enumerate() {
        if k % 2 == 1 {
            d.vars.reverse();
        }
    }
    out
}

#[derive(Clone, Debug)]
pub struct Fault {
    pub kind: &'static str,
    /// "attr" or "easy"
    pub front: &'static str,
    pub src: String,
    /// faults that only rustc (not the macro) can reject
    pub rustc_only: bool,
}

/// Single-fault perturbations of a well-formed declaration.
pub fn faults(d: &Decl) -> Vec<Fault> {
    let mut out: Vec<Fault> = Vec::new();
    let mut push = |kind: &'static str, dd: &Decl| {
        out.push(Fault { kind, front: "attr", src: dd.attr_item("E"), rustc_only: false });
        out.push(Fault { kind, front: "easy", src: dd.easy_body("E"), rustc_only: false });
    };
    let n = d.vars.len();
    // duplicate id (two user variants; user variant vs built-in Crc32 / Void)
    if n >= 2 {
        let mut dd = d.clone();
        dd.vars[n - 1].id = dd.vars[0].id;
        push("duplicate-id", &dd);
    }
    for builtin in [0xbfu64, 0xec] {
        let mut dd = d.clone();
        dd.vars[0].id = builtin;
        push("duplicate-id-with-builtin", &dd);
    }
    // unknown parent
    {
        let mut dd = d.clone();
        dd.vars[n - 1].path = vec![DPart::Ident("Nowhere".into())];
        push("unknown-parent", &dd);
    }
    // non-master parent of a leaf and of a master
    if n >= 1 {
        for child_ty in [Ty::U, Ty::Master] {
            let mut dd = d.clone();
            dd.vars.push(DVar { name: "Leafy".into(), ty: Ty::U, id: 0xa1, path: vec![] });
            dd.vars.push(DVar { name: "Kid".into(), ty: child_ty, id: 0xa2, path: vec![DPart::Ident("Leafy".into())] });
            push(if child_ty == Ty::Master { "non-master-parent-of-a-master" } else { "non-master-parent-of-a-leaf" }, &dd);
        }
    }
    // path that does not equal parent's path + parent
    {
        // Top / Mid (under Top) / Kid declared directly under Mid but with a path that skips Top
        for child_ty in [Ty::B, Ty::Master] {
            let mut dd = d.clone();
            dd.vars.push(DVar { name: "Top".into(), ty: Ty::Master, id: 0xa1, path: vec![] });
            dd.vars.push(DVar { name: "Mid".into(), ty: Ty::Master, id: 0xa2, path: vec![DPart::Ident("Top".into())] });
            dd.vars.push(DVar { name: "Kid".into(), ty: child_ty, id: 0xa3, path: vec![DPart::Ident("Mid".into())] });
            push(if child_ty == Ty::Master { "master-path-skips-parent-path" } else { "leaf-path-skips-parent-path" }, &dd);
            // path with something extra between the parent's path and the parent
            let mut de = d.clone();
            de.vars.push(DVar { name: "Top".into(), ty: Ty::Master, id: 0xa1, path: vec![] });
            de.vars.push(DVar { name: "Other".into(), ty: Ty::Master, id: 0xa4, path: vec![] });
            de.vars.push(DVar { name: "Mid".into(), ty: Ty::Master, id: 0xa2, path: vec![DPart::Ident("Top".into())] });
            de.vars.push(DVar { name: "Kid".into(), ty: child_ty, id: 0xa3, path: vec![DPart::Ident("Top".into()), DPart::Ident("Other".into()), DPart::Ident("Mid".into())] });
            push(if child_ty == Ty::Master { "master-path-extends-beyond-parent-path" } else { "leaf-path-extends-beyond-parent-path" }, &de);
        }
    }
    // cyclic parents
    {
        let mut dd = d.clone();
        dd.vars.push(DVar { name: "CycA".into(), ty: Ty::Master, id: 0xa1, path: vec![DPart::Ident("CycB".into())] });
        dd.vars.push(DVar { name: "CycB".into(), ty: Ty::Master, id: 0xa2, path: vec![DPart::Ident("CycA".into())] });
        dd.vars.push(DVar { name: "CycLeaf".into(), ty: Ty::U, id: 0xa3, path: vec![DPart::Ident("CycB".into()), DPart::Ident("CycA".into())] });
        push("cyclic-parent", &dd);
        // a master that names itself as its parent
        let mut ds = d.clone();
        ds.vars.push(DVar { name: "Own".into(), ty: Ty::Master, id: 0xa1, path: vec![DPart::Ident("Own".into())] });
        ds.vars.push(DVar { name: "OwnLeaf".into(), ty: Ty::U, id: 0xa2, path: vec![DPart::Ident("Own".into()), DPart::Ident("Own".into())] });
        push("self-parent", &ds);
    }
    // zero maximum, adjacent placeholders
    for (kind, path) in [
        ("zero-maximum", vec![DPart::Glob(None, Some(0))]),
        ("zero-maximum", vec![DPart::Glob(Some(0), Some(0))]),
        ("adjacent-placeholders", vec![DPart::Glob(Some(1), Some(2)), DPart::Glob(None, None)]),
    ] {
        let mut dd = d.clone();
        dd.vars.push(DVar { name: "G".into(), ty: Ty::B, id: 0xa1, path });
        push(kind, &dd);
    }
    // missing / unknown attributes and unknown data type: attribute front-end source edits
    {
        let good = d.attr_item("E");
        let first_id = format!("    #[id({:#x})]\n", d.vars[0].id);
        out.push(Fault { kind: "missing-id", front: "attr", src: good.replacen(&first_id, "", 1), rustc_only: false });
        let first_dt = format!("    #[data_type(TagDataType::{})]\n", ty_name(d.vars[0].ty));
        out.push(Fault { kind: "missing-data_type", front: "attr", src: good.replacen(&first_dt, "", 1), rustc_only: false });
        out.push(Fault { kind: "unknown-data-type", front: "attr", src: good.replacen(&first_dt, "    #[data_type(TagDataType::Date)]\n", 1), rustc_only: false });
        out.push(Fault { kind: "unknown-attribute", front: "attr", src: good.replacen(&first_id, &format!("{}    #[bogus(1)]\n", first_id), 1), rustc_only: true });
        let easy = d.easy_body("E");
        let ty0 = format!(": {} =", ty_name(d.vars[0].ty));
        out.push(Fault { kind: "unknown-data-type", front: "easy", src: easy.replacen(&ty0, ": Date =", 1), rustc_only: false });
        out.push(Fault { kind: "missing-id", front: "easy", src: easy.replacen(&format!(" = {:#x},", d.vars[0].id), ",", 1), rustc_only: false });
    }
    out
}

// ---------------------------------------------------------------------------------------------
// generated crate

const COMMON_RS: &str = r##"//! generated by `verif gen-c18` — do not edit
#![allow(dead_code)]
use ebml_iterable::specs::{EbmlSpecification, EbmlTag, Master, PathPart, TagDataType};
use ebml_iterable::{TagIterator, TagWriter};
use std::fmt::Debug;

#[derive(Clone, Copy, Debug, PartialEq)]
pub enum P {
    I(u64),
    G(Option<u64>, Option<u64>),
}

pub type Row = (u64, u8, &'static [P]);

fn ty_of(t: Option<TagDataType>) -> Option<u8> {
    t.map(|t| match t {
        TagDataType::Master => 0,
        TagDataType::UnsignedInt => 1,
        TagDataType::Integer => 2,
        TagDataType::Float => 3,
        TagDataType::Utf8 => 4,
        TagDataType::Binary => 5,
    })
}

fn path_of(p: &[PathPart]) -> Vec<P> {
    p.iter().map(|x| match x { PathPart::Id(i) => P::I(*i), PathPart::Global((a, b)) => P::G(*a, *b) }).collect()
}

fn accessors<T: EbmlTag<T> + Clone>(t: &T) -> [bool; 6] {
    [t.as_master().is_some(), t.as_unsigned_int().is_some(), t.as_signed_int().is_some(), t.as_float().is_some(), t.as_utf8().is_some(), t.as_binary().is_some()]
}

pub fn check_spec<T: EbmlSpecification<T> + EbmlTag<T> + Clone + Debug + PartialEq>(table: &[Row]) -> Vec<String> {
    let mut bad = Vec::new();
    let mut probes: Vec<u64> = vec![0, 1, 0x80, 0xbf, 0xec, 0xff, u64::MAX];
    for (id, _, _) in table {
        probes.push(*id);
        probes.push(id.wrapping_add(1));
        probes.push(id.wrapping_sub(1));
    }
    for id in probes {
        let row = table.iter().find(|r| r.0 == id);
        let want_ty = row.map(|r| r.1);
        let want_path: Vec<P> = row.map(|r| r.2.to_vec()).unwrap_or_default();
        if ty_of(T::get_tag_data_type(id)) != want_ty {
            bad.push(format!("get_tag_data_type({:#x}) = {:?}, declared {:?}", id, T::get_tag_data_type(id), want_ty));
        }
        if path_of(T::get_path_by_id(id)) != want_path {
            bad.push(format!("get_path_by_id({:#x}) = {:?}, declared {:?}", id, T::get_path_by_id(id), want_path));
        }
        // constructors: Some iff the id has that type
        let made: [Option<T>; 6] = [
            T::get_master_tag(id, Master::Start),
            T::get_unsigned_int_tag(id, 5),
            T::get_signed_int_tag(id, -5),
            T::get_float_tag(id, 1.5),
            T::get_utf8_tag(id, String::from("x")),
            T::get_binary_tag(id, &[1, 2]),
        ];
        for (k, m) in made.iter().enumerate() {
            if m.is_some() != (want_ty == Some(k as u8)) {
                bad.push(format!("constructor #{} for id {:#x} returned {:?} but the declared type is {:?}", k, id, m, want_ty));
            }
            if let Some(t) = m {
                if t.get_id() != id {
                    bad.push(format!("tag built for id {:#x} reports id {:#x}", id, t.get_id()));
                }
                let acc = accessors(t);
                for j in 0..6 {
                    if acc[j] != (j == k) {
                        bad.push(format!("tag of type #{} for id {:#x}: accessor #{} is_some = {}", k, id, j, acc[j]));
                    }
                }
                let payload_ok = match k {
                    0 => matches!(t.as_master(), Some(Master::Start)),
                    1 => t.as_unsigned_int() == Some(&5),
                    2 => t.as_signed_int() == Some(&-5),
                    3 => t.as_float() == Some(&1.5),
                    4 => t.as_utf8() == Some("x"),
                    _ => t.as_binary() == Some(&[1u8, 2][..]),
                };
                if !payload_ok {
                    bad.push(format!("tag of type #{} for id {:#x} does not return its payload", k, id));
                }
            }
        }
        if let Some(t) = T::get_master_tag(id, Master::Full(vec![])) {
            if !matches!(t.as_master(), Some(Master::Full(c)) if c.is_empty()) {
                bad.push(format!("Full master for id {:#x} not returned through as_master", id));
            }
        }
        // raw tag variant
        let raw = T::get_raw_tag(id, &[9, 9]);
        if raw.get_id() != id || raw.as_binary() != Some(&[9u8, 9][..]) {
            bad.push(format!("raw tag for id {:#x}: id {:#x} data {:?}", id, raw.get_id(), raw.as_binary()));
        }
        let acc = accessors(&raw);
        if acc != [false, false, false, false, false, true] {
            bad.push(format!("raw tag for id {:#x}: accessors {:?}", id, acc));
        }
    }
    // smoke: write each declared element under its named ancestors and read it back; must never panic
    for (id, ty, path) in table {
        if path.iter().any(|p| matches!(p, P::G(Some(m), _) if *m > 0)) {
            continue;
        }
        let chain: Vec<u64> = path.iter().filter_map(|p| if let P::I(i) = p { Some(*i) } else { None }).collect();
        let r = std::panic::catch_unwind(|| {
            let mut w = TagWriter::new(Vec::new());
            let mut tags: Vec<T> = Vec::new();
            for m in &chain {
                tags.push(T::get_master_tag(*m, Master::Start).ok_or_else(|| format!("path names non-master {:#x}", m))?);
            }
            match ty {
                0 => {
                    tags.push(T::get_master_tag(*id, Master::Start).unwrap());
                    tags.push(T::get_master_tag(*id, Master::End).unwrap());
                }
                1 => tags.push(T::get_unsigned_int_tag(*id, 300).unwrap()),
                2 => tags.push(T::get_signed_int_tag(*id, -300).unwrap()),
                3 => tags.push(T::get_float_tag(*id, 2.5).unwrap()),
                4 => tags.push(T::get_utf8_tag(*id, String::from("hi")).unwrap()),
                _ => tags.push(T::get_binary_tag(*id, &[7, 8, 9]).unwrap()),
            }
            for m in chain.iter().rev() {
                tags.push(T::get_master_tag(*m, Master::End).unwrap());
            }
            for t in &tags {
                w.write(t).map_err(|e| format!("write {:?}: {:?}", t, e))?;
            }
            let bytes = w.into_inner().map_err(|e| format!("{:?}", e))?;
            let mut it: TagIterator<&[u8], T> = TagIterator::new(&bytes[..], &[]);
            let mut got: Vec<T> = Vec::new();
            for _ in 0..(tags.len() + 2) {
                match it.next() {
                    None => break,
                    Some(Ok(t)) => got.push(t),
                    Some(Err(e)) => return Err(format!("read back: {:?}", e)),
                }
            }
            if got != tags {
                return Err(format!("read back {:?} != written {:?}", got, tags));
            }
            Ok::<(), String>(())
        });
        match r {
            Err(p) => {
                let m = p.downcast_ref::<String>().cloned().or_else(|| p.downcast_ref::<&str>().map(|s| s.to_string())).unwrap_or_default();
                bad.push(format!("smoke write/read of {:#x} panicked: {}", id, m));
            }
            Ok(Err(e)) => bad.push(format!("smoke write/read of {:#x}: {}", id, e)),
            Ok(Ok(())) => {}
        }
    }
    bad
}
"##;

fn write_if_changed(path: &str, content: &str) -> std::io::Result<()> {
    // keep mtimes stable so that cargo does not rebuild unchanged chunks
    if std::fs::read_to_string(path).map(|c| c == content).unwrap_or(false) {
        return Ok(());
    }
    std::fs::write(path, content)
}

/// Writes the generated crate (lib + `chunks` bin targets) into `dir`. Returns the number of declarations.
pub fn generate_crate(dir: &str, decls: &[Decl], chunks: usize, rustc_neg: &[Fault]) -> std::io::Result<()> {
    std::fs::create_dir_all(format!("{}/src/bin", dir))?;
    // stale must-fail programs from a previous run
    if let Ok(rd) = std::fs::read_dir(format!("{}/src/bin", dir)) {
        for e in rd.flatten() {
            if e.file_name().to_string_lossy().starts_with("neg") {
                let _ = std::fs::remove_file(e.path());
            }
        }
    }
    let mut cargo = String::from("[package]\nname = \"c18gen\"\nversion = \"0.1.0\"\nedition = \"2021\"\n\n[dependencies]\nebml-iterable = { path = \"/repo\", features = [\"derive-spec\"] }\n\n[lib]\npath = \"src/lib.rs\"\n\n[workspace]\n\n[profile.dev]\ndebug = false\nopt-level = 0\nincremental = false\n");
    write_if_changed(&format!("{}/src/lib.rs", dir), COMMON_RS)?;
    for c in 0..chunks {
        let mut s = String::from("// generated by `verif gen-c18` — do not edit\n#![allow(dead_code, unused_imports, non_camel_case_types)]\n");
        let mut calls = String::new();
        for (k, d) in decls.iter().enumerate() {
            if k % chunks != c {
                continue;
            }
            let _ = writeln!(s, "mod d{} {{", k);
            let _ = writeln!(s, "    use ebml_iterable::specs::{{ebml_specification, easy_ebml, TagDataType}};");
            let _ = writeln!(s, "    use c18gen::{{P, Row}};");
            let _ = writeln!(s, "    #[ebml_specification]");
            for line in d.attr_item("EA").lines() {
                let _ = writeln!(s, "    {}", line);
            }
            let _ = writeln!(s, "    easy_ebml! {{");
            for line in d.easy_body("EE").lines() {
                let _ = writeln!(s, "        {}", line);
            }
            let _ = writeln!(s, "    }}");
            let _ = writeln!(s, "    pub const TABLE: &[Row] = {};", d.table_literal());
            let _ = writeln!(s, "    pub fn check() -> Vec<String> {{");
            let _ = writeln!(s, "        let mut v: Vec<String> = c18gen::check_spec::<EA>(TABLE).into_iter().map(|m| format!(\"attribute front-end: {{}}\", m)).collect();");
            let _ = writeln!(s, "        v.extend(c18gen::check_spec::<EE>(TABLE).into_iter().map(|m| format!(\"easy_ebml front-end: {{}}\", m)));");
            let _ = writeln!(s, "        v\n    }}\n}}");
            let _ = writeln!(calls, "    report({}, d{}::check());", k, k);
        }
        let _ = writeln!(s, "fn report(k: usize, bad: Vec<String>) {{\n    if bad.is_empty() {{ println!(\"DECL {{}} OK\", k); }} else {{ for b in bad.iter().take(3) {{ println!(\"DECL {{}} MISMATCH {{}}\", k, b.replace('\\n', \" \")); }} }}\n}}");
        let _ = writeln!(s, "fn main() {{\n    std::panic::set_hook(Box::new(|_| {{}}));\n{}    println!(\"CHUNK-DONE\");\n}}", calls);
        write_if_changed(&format!("{}/src/bin/chunk{}.rs", dir, c), &s)?;
    }
    // declarations that must fail to compile (one bin each, checked individually)
    for (k, f) in rustc_neg.iter().enumerate() {
        let mut s = String::from("#![allow(dead_code, unused_imports)]\nuse ebml_iterable::specs::{ebml_specification, easy_ebml, TagDataType};\n");
        if f.front == "attr" {
            s.push_str("#[ebml_specification]\n");
            s.push_str(&f.src);
        } else {
            s.push_str("easy_ebml! {\n");
            s.push_str(&f.src);
            s.push_str("}\n");
        }
        s.push_str("fn main() {}\n");
        std::fs::write(format!("{}/src/bin/neg{}.rs", dir, k), s)?;
    }
    cargo.push('\n');
    write_if_changed(&format!("{}/Cargo.toml", dir), &cargo)?;
    Ok(())
}
