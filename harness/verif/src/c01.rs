//! C01 — write→read round trip reproduces every accepted tag sequence exactly.

use crate::ctx::Ctx;
use crate::docs::{self, DocParams};
use crate::gen;
use crate::obs::{parse_slice, run_writer, Cfg, Dest, WCall, ALLOW_IDS};
use crate::refmodel::{flatten_items, hex, Kind, NItem, Node, SizeEnc};
use crate::spec::*;
use crate::wmodel::{calls_for, full_choices};

fn has_raw(doc: &[Node]) -> bool {
    let mut r = false;
    crate::refmodel::visit(doc, &mut |n, _| {
        if matches!(n.kind, Kind::RawLeaf(_)) {
            r = true;
        }
    }, 0);
    r
}

fn check_doc<T: SpecT>(ctx: &mut Ctx, rs: &RefSpec, doc: &Vec<Node>, all_presentations: bool) {
    if gen::has_ambiguous_global_after_unknown(rs, doc) {
        ctx.count("excluded_ambiguous_global_after_unknown", 1);
        return;
    }
    let want = flatten_items(doc);
    let cfg = if has_raw(doc) { Cfg::strict().with_allow(ALLOW_IDS) } else { Cfg::strict() };
    let choices: Vec<Vec<usize>> = if all_presentations { full_choices(doc) } else { vec![vec![]] };
    for ch in choices {
        let d = || format!("doc=[{}] full_roots={:?}", docs::doc_short(rs, doc), ch);
        if !ctx.enter(&d) {
            continue;
        }
        let calls = calls_for(doc, &ch, false);
        let run = run_writer::<T>(&calls, Dest::default());
        ctx.transitions += calls.len() as u64 + 1;
        if let Some((i, e)) = run.results.iter().enumerate().find_map(|(i, r)| r.as_ref().err().map(|e| (i, e))) {
            if matches!(e, crate::obs::WErr::Panic(_)) {
                ctx.violation("writer/panic", &d, &format!("call #{} {}: {:?}", i, calls[i].short(), e));
            }
            ctx.count("rejected_by_writer(not judged here)", 1);
        } else if run.fin.is_err() {
            ctx.count("rejected_by_writer(not judged here)", 1);
        } else {
            ctx.count("accepted_by_writer", 1);
            let mut nontrivial = false;
            crate::refmodel::visit(doc, &mut |n, _| {
                if n.size != SizeEnc::Min {
                    nontrivial = true;
                }
            }, 0);
            if (nontrivial || !ch.is_empty()) && doc.iter().any(|n| n.is_master()) {
                ctx.nontrivial();
            }
            let obs = parse_slice::<T>(&run.out, &cfg);
            ctx.transitions += obs.items.len() as u64 + 1;
            ctx.outcome(&(obs.items.len(), obs.clean()));
            if !obs.clean() {
                ctx.violation(&format!("reading-the-output/{}", match &obs.term { crate::obs::Term::Err(e) => e.kind(), crate::obs::Term::Panic(_) => "panic", _ => "no-termination" }), &d, &format!("output {} reads as {}", hex(&run.out), obs.short()));
            } else if obs.item_list() != want {
                let got = obs.item_list();
                let same_multiset = { let mut a: Vec<String> = got.iter().map(|i| i.short()).collect(); let mut b: Vec<String> = want.iter().map(|i| i.short()).collect(); a.sort(); b.sort(); a == b };
                ctx.violation(if same_multiset { "tags-reordered" } else { "tags-differ" }, &d, &format!("output {} reads as {} | written [{}]", hex(&run.out), obs.short(), want.iter().map(|i| i.short()).collect::<Vec<_>>().join(" ")));
            }
        }
        // the same output read with a 16-byte initial capacity (every payload above 16 bytes makes the buffer grow)
        if all_presentations && run.results.iter().all(|r| r.is_ok()) && run.fin.is_ok() && run.out.len() > 40 && run.out.len() < 70000 {
            let obs = parse_slice::<T>(&run.out, &cfg.clone().with_cap(Some(16)));
            ctx.transitions += obs.items.len() as u64 + 1;
            ctx.count("read_back_with_capacity_16", 1);
            if !obs.clean() || obs.item_list() != want {
                ctx.violation("reading-the-output-with-capacity-16/differs", &d, &format!("output {} reads as {} | written [{}]", hex(&run.out[..run.out.len().min(200)]), obs.short(), want.iter().map(|i| i.short()).collect::<Vec<_>>().join(" ")));
            }
        }
        // the accepted calls are the document: one call that the writer REJECTS in between (a payload of 127 bytes
        // with a 1-byte size field as string / binary / raw tag, an End of a master that is not open) must not show
        if all_presentations && ch.is_empty() && run.results.iter().all(|r| r.is_ok()) && run.fin.is_ok() && calls.len() <= 12 {
            use crate::obs::WOpt;
            use crate::refmodel::Val;
            let menu = [
                WCall::Tag(NItem::Leaf(ID_S, Val::S("q".repeat(127))), WOpt::Width(1)),
                WCall::Tag(NItem::Leaf(ID_B, Val::B(vec![0x71; 127])), WOpt::Width(1)),
                WCall::Tag(NItem::Raw(0xf2, vec![0x71; 127]), WOpt::Width(1)),
                WCall::Tag(NItem::End(ID_P), WOpt::Default),
            ];
            'ins: for pos in 0..=calls.len() {
                for f in &menu {
                    let mut c2 = calls.clone();
                    c2.insert(pos, f.clone());
                    let r2 = run_writer::<T>(&c2, Dest::default());
                    ctx.transitions += c2.len() as u64 + 1;
                    if r2.results[pos].is_ok() {
                        continue;
                    }
                    ctx.count("round_trips_with_a_rejected_call_in_between", 1);
                    if r2.results.iter().enumerate().any(|(i, x)| i != pos && x.is_err()) || r2.fin.is_err() {
                        ctx.violation("rejected-call-in-between/later-call-rejected", &d, &format!("{} inserted before call #{}: {:?} fin {:?}", f.short(), pos, r2.results.iter().enumerate().find(|(i, x)| *i != pos && x.is_err()), r2.fin));
                        break 'ins;
                    }
                    let obs = parse_slice::<T>(&r2.out, &cfg);
                    ctx.transitions += obs.items.len() as u64 + 1;
                    if !obs.clean() || obs.item_list() != want {
                        ctx.violation("rejected-call-in-between/accepted-tags-do-not-round-trip", &d, &format!("{} (rejected) inserted before call #{}: output {} reads as {} | accepted [{}]", f.short(), pos, hex(&r2.out), obs.short(), want.iter().map(|i| i.short()).collect::<Vec<_>>().join(" ")));
                        break 'ins;
                    }
                }
            }
        }
        ctx.validated += 1;
        ctx.leave();
    }
}

pub fn run(ctx: &mut Ctx) {
    let rs = v_refspec();
    assert_spec_matches::<V>(&rs);
    let p = DocParams {
        max_nodes: ctx.tier.pick(5, 6),
        globals: vec![ID_TAG, ID_VOID, ID_CRC],
        exclude: vec![],
        unknown_subsets: true,
        devs: 1,
        payload_classes: true,
        big_payloads: true,
        noncanonical: false,
        width_devs: true,
        extras: true,
        all_widths: true,
    };
    ctx.meta("rule", "cases: (tree, per-tag write options, presentation); trees = forests over V (macro-derived) up to the node bound + deep spines + Root[leaf] for every payload class x every explicit size width + size-boundary documents (payload / content 124..128, 16379..16384 bytes; thorough adds 2^21-1, 2^21) + raw tags with well-formed unknown ids of 1, 2 and 8 bytes, documents longer than the reader's 64 KiB buffer with 9..16-byte headers at every alignment around the buffer boundary, and forests over a runtime specification whose masters nest 8 deep with ids of every byte length 1..8; options = every known/unknown choice x deviations among size width 1..8 and payload classes (0, boundary integers, NaN patterns, empty/127/128-byte strings and binaries); presentations = Start/End and every Full antichain. The real TagWriter is driven; if every call is accepted the output is read by the real strict TagIterator. For the forests of <= 4 elements additionally with one call that the writer rejects put in at every position (127-byte string / binary / raw tag with a 1-byte size field, End of a master that is not open): the accepted calls are the document. Oracle: items == flatten(tree) exactly, no error, then None. Excluded (inherent EBML ambiguity, as in C07): a global element directly after an unknown-size master. Non-trivial: documents with a master and a non-default option or Full presentation.");
    ctx.meta("bounds", &format!("forests <= {} elements over V, <= {} deviation (thorough: additionally <= 2 deviations on forests <= 5 elements); chain specification forests <= {} elements + the full 8-deep spine x 256 unknown-size subsets", p.max_nodes, p.devs, ctx.tier.pick(6, 7)));
    ctx.meta("assumptions", "payload lengths 2^(7k)-1 for k >= 4 are covered only at codec level (C15) || calls the writer rejects are not judged here (C09/C11 demand acceptance)");
    for c in ["accepted_by_writer", "chain_spec_docs", "size_boundary_docs", "buffer_boundary_docs", "round_trips_with_a_rejected_call_in_between", "read_back_with_capacity_16", "payload_class_x_width_docs"] {
        ctx.expect_nonzero(c);
    }
    docs::for_each_doc(ctx, &rs, &p, &mut |ctx, doc| {
        let small = gen::count_nodes(doc) <= 4;
        check_doc::<V>(ctx, &rs, doc, small);
        !ctx.should_stop()
    });
    if !ctx.quick() {
        // two simultaneous deviations on the smaller forests
        let p2 = DocParams { max_nodes: 5, devs: 2, globals: vec![ID_TAG, ID_VOID], ..p.clone() };
        docs::for_each_doc(ctx, &rs, &p2, &mut |ctx, doc| {
            check_doc::<V>(ctx, &rs, doc, false);
            !ctx.should_stop()
        });
    }
    let mut extra = docs::size_boundary_docs();
    if !ctx.quick() {
        for len in [(1usize << 21) - 2, (1 << 21) - 1, 1 << 21] {
            extra.push(vec![Node::master(ID_ROOT, vec![Node::leaf(ID_B, crate::refmodel::Val::B(vec![0x33; len]))])]);
        }
    }
    for (i, doc) in extra.into_iter().enumerate() {
        if !ctx.mine(i as u64) {
            continue;
        }
        ctx.count("size_boundary_docs", 1);
        check_doc::<V>(ctx, &rs, &doc, true);
        let mut d3 = doc.clone();
        d3[0].size = SizeEnc::Unknown(8);
        check_doc::<V>(ctx, &rs, &d3, false);
        for w in [2u8, 3, 4, 8] {
            let mut d1 = doc.clone();
            if let Kind::Master(ch) = &mut d1[0].kind {
                ch[0].size = SizeEnc::Width(w);
            }
            check_doc::<V>(ctx, &rs, &d1, false);
        }
    }
    // every payload class of every data type under every explicit size-field width (one deviation in the main sweep
    // is a payload class OR a width)
    for (i, doc) in docs::payload_width_docs().into_iter().enumerate() {
        if ctx.mine(i as u64) {
            ctx.count("payload_class_x_width_docs", 1);
            check_doc::<V>(ctx, &rs, &doc, false);
        }
    }
    // documents longer than the reader's 64 KiB buffer: elements with 9..16-byte headers at every alignment
    // around the buffer boundary
    {
        use crate::refmodel::Val;
        let pads: Vec<usize> = if ctx.quick() { (0..28).collect() } else { (0..64).collect() };
        for (i, pad) in pads.iter().enumerate() {
            if !ctx.mine(i as u64) {
                continue;
            }
            let filler = Node::leaf(ID_B, Val::B(vec![0x6b; 65536 - 48 + pad]));
            let mut mu = Node::leaf(ID_MU, Val::U(5));
            mu.size = SizeEnc::Width(8);
            let mut m = Node::master(ID_M, vec![mu, Node::master(ID_N, vec![Node::master(ID_K, vec![{ let mut l = Node::master(ID_L, vec![Node::leaf(ID_LB, Val::B(vec![1, 2]))]); l.size = SizeEnc::Width(8); l }])])]);
            m.size = SizeEnc::Width(8);
            let mut u = Node::leaf(ID_U, Val::U(77));
            u.size = SizeEnc::Width(7);
            for unknown_root in [false, true] {
                let mut root = Node::master(ID_ROOT, vec![filler.clone(), m.clone(), u.clone(), Node::leaf(ID_S, Val::S("tail".into()))]);
                if unknown_root {
                    root.size = SizeEnc::Unknown(8);
                }
                ctx.count("buffer_boundary_docs", 1);
                check_doc::<V>(ctx, &rs, &vec![root], false);
            }
        }
    }
    // the chain specification (ids of every length, 8 levels)
    let crs = chain_refspec();
    install_refspec(&crs);
    assert_spec_matches::<RT>(&crs);
    let pc = DocParams { max_nodes: ctx.tier.pick(6, 7), globals: vec![ID_VOID], exclude: vec![], unknown_subsets: true, devs: 0, payload_classes: false, big_payloads: false, noncanonical: false, width_devs: false, extras: false, all_widths: false };
    docs::for_each_doc(ctx, &crs, &pc, &mut |ctx, doc| {
        ctx.count("chain_spec_docs", 1);
        check_doc::<RT>(ctx, &crs, doc, false);
        !ctx.should_stop()
    });
    // the full 8-deep spine of the chain specification, a leaf at every level, every unknown-size subset
    let masters: Vec<u64> = crs.elems.iter().filter(|e| e.ty == Ty::Master).map(|e| e.id).collect();
    let leaves: Vec<(u64, Ty)> = masters.iter().map(|m| { let e = crs.elems.iter().find(|e| e.ty != Ty::Master && e.path.last() == Some(&PP::Id(*m))).unwrap(); (e.id, e.ty) }).collect();
    for mask in 0u32..256 {
        if !ctx.mine(mask as u64) {
            continue;
        }
        for with_followers in [false, true] {
            let mut node: Option<Node> = None;
            for i in (0..8).rev() {
                let mut ch = vec![Node::leaf(leaves[i].0, gen::default_val(leaves[i].1))];
                if let Some(inner) = node.take() {
                    ch.push(inner);
                    if with_followers {
                        ch.push(Node::leaf(leaves[i].0, gen::default_val(leaves[i].1)));
                    }
                }
                let mut m = Node::master(masters[i], ch);
                if mask >> i & 1 == 1 {
                    m.size = SizeEnc::Unknown(8);
                }
                node = Some(m);
            }
            ctx.count("chain_spec_docs", 1);
            check_doc::<RT>(ctx, &crs, &vec![node.unwrap()], false);
        }
    }
}
