//! C15 — variable-length integer codec: canonical, total, bijective.
//! Complete enumeration of a bounded input space of the pure functions in `ebml_iterable::tools`
//! against RefCodec (u128 arithmetic, explicit loops).

use std::panic::{catch_unwind, AssertUnwindSafe};

use ebml_iterable::tools::{is_vint, read_signed_vint, read_vint, SignedVint, Vint};

use crate::ctx::Ctx;
use crate::obs::panic_msg;
use crate::refmodel::{hex, id_well_formed, svint_decode, vint_decode, vint_encode, vint_min_width, VintDec};

fn fixed(v: u64, w: usize) -> Result<Vec<u8>, String> {
    let r = match w {
        1 => v.as_vint_with_length::<1>().map(|a| a.to_vec()),
        2 => v.as_vint_with_length::<2>().map(|a| a.to_vec()),
        3 => v.as_vint_with_length::<3>().map(|a| a.to_vec()),
        4 => v.as_vint_with_length::<4>().map(|a| a.to_vec()),
        5 => v.as_vint_with_length::<5>().map(|a| a.to_vec()),
        6 => v.as_vint_with_length::<6>().map(|a| a.to_vec()),
        7 => v.as_vint_with_length::<7>().map(|a| a.to_vec()),
        8 => v.as_vint_with_length::<8>().map(|a| a.to_vec()),
        _ => unreachable!(),
    };
    r.map_err(|e| format!("{:?}", e))
}

fn guard<R>(f: impl FnOnce() -> R) -> Result<R, String> {
    catch_unwind(AssertUnwindSafe(f)).map_err(panic_msg)
}

fn near_boundary_u(v: u64) -> bool {
    (1..=9).any(|k| {
        let b = 1u128 << (7 * k);
        let d = (v as i128 - b as i128).abs();
        d <= 2
    }) || v <= 2
}

fn near_boundary_i(v: i64) -> bool {
    (1..=8).any(|k| {
        let b = 1i128 << (7 * k - 1);
        (v as i128 - b).abs() <= 2 || (v as i128 + b).abs() <= 2
    }) || v.unsigned_abs() <= 2
}

fn check_unsigned(ctx: &mut Ctx, v: u64) {
    let d = move || format!("unsigned value {:#x}", v);
    if !ctx.enter(&d) {
        return;
    }
    if near_boundary_u(v) {
        ctx.nontrivial();
    }
    ctx.outcome(&(vint_min_width(v), id_well_formed(v)));
    // default encoder
    ctx.transitions += 1;
    match guard(|| v.as_vint()) {
        Err(p) => ctx.violation("as_vint/panic", &d, &p),
        Ok(r) => match (r, vint_min_width(v)) {
            (Ok(enc), Some(w)) => {
                let want = vint_encode(v, w).unwrap();
                if enc != want {
                    ctx.violation("as_vint/not-shortest-or-wrong", &d, &format!("got {} want {}", hex(&enc), hex(&want)));
                }
                // decode ∘ encode = id
                ctx.transitions += 1;
                match guard(|| read_vint(&enc)) {
                    Ok(Ok(Some((val, len)))) if val == v && len == enc.len() => {}
                    other => ctx.violation("read_vint/roundtrip", &d, &format!("read_vint({}) = {:?}", hex(&enc), other.map(|r| r.map_err(|e| format!("{:?}", e))))),
                }
                ctx.count("as_vint_ok", 1);
            }
            (Ok(enc), None) => ctx.violation("as_vint/accepts-unrepresentable", &d, &format!("value >= 2^56 encoded as {}", hex(&enc))),
            (Err(e), Some(_)) => ctx.violation("as_vint/rejects-representable", &d, &format!("{:?}", e)),
            (Err(_), None) => ctx.count("as_vint_overflow", 1),
        },
    }
    // fixed-width encoder
    for w in 1..=8usize {
        ctx.transitions += 1;
        match guard(|| fixed(v, w)) {
            Err(p) => ctx.violation("as_vint_with_length/panic", &d, &format!("width {}: {}", w, p)),
            Ok(r) => match (r, vint_encode(v, w)) {
                (Ok(enc), Some(want)) => {
                    if enc != want {
                        ctx.violation("as_vint_with_length/wrong-bytes", &d, &format!("width {} got {} want {}", w, hex(&enc), hex(&want)));
                    } else {
                        ctx.transitions += 1;
                        match guard(|| read_vint(&enc)) {
                            Ok(Ok(Some((val, len)))) if val == v && len == w => {}
                            other => ctx.violation("read_vint/roundtrip-fixed", &d, &format!("width {} read_vint({}) = {:?}", w, hex(&enc), other.map(|r| r.map_err(|e| format!("{:?}", e))))),
                        }
                    }
                    ctx.count("fixed_ok", 1);
                }
                (Ok(enc), None) => ctx.violation("as_vint_with_length/no-overflow-reported", &d, &format!("width {} gave {}", w, hex(&enc))),
                (Err(e), Some(_)) => ctx.violation("as_vint_with_length/spurious-overflow", &d, &format!("width {}: {}", w, e)),
                (Err(_), None) => ctx.count("fixed_overflow", 1),
            },
        }
    }
    // well-formed id predicate
    ctx.transitions += 1;
    match guard(|| is_vint(v)) {
        Err(p) => ctx.violation("is_vint/panic", &d, &p),
        Ok(b) => {
            if b != id_well_formed(v) {
                ctx.violation("is_vint/wrong", &d, &format!("is_vint = {} but byte length {} marker length", b, if id_well_formed(v) { "==" } else { "!=" }));
            }
            ctx.count(if b { "is_vint_true" } else { "is_vint_false" }, 1);
        }
    }
    ctx.validated += 1;
    ctx.leave();
}

fn check_signed(ctx: &mut Ctx, v: i64) {
    let d = move || format!("signed value {}", v);
    if !ctx.enter(&d) {
        return;
    }
    if near_boundary_i(v) {
        ctx.nontrivial();
    }
    let vi = v as i128;
    // per-width: must accept strictly inside, must reject outside the two's-complement range; the two extreme
    // values of the range are left to the implementation (the statement says "strictly inside")
    let must_accept = |w: usize| vi > -(1i128 << (7 * w - 1)) && vi < (1i128 << (7 * w - 1)) - 1;
    let may_accept = |w: usize| vi >= -(1i128 << (7 * w - 1)) && vi <= (1i128 << (7 * w - 1)) - 1;
    for w in 1..=8usize {
        ctx.transitions += 1;
        match guard(|| v.as_signed_vint_with_length(w)) {
            Err(p) => ctx.violation("as_signed_vint_with_length/panic", &d, &format!("width {}: {}", w, p)),
            Ok(Ok(enc)) => {
                if !may_accept(w) {
                    ctx.violation("as_signed_vint_with_length/accepts-out-of-range", &d, &format!("width {} gave {}", w, hex(&enc)));
                } else {
                    if enc.len() != w || svint_decode(&enc) != Some((v, w)) {
                        ctx.violation("as_signed_vint_with_length/wrong-bytes", &d, &format!("width {} gave {} (reference decodes it as {:?})", w, hex(&enc), svint_decode(&enc)));
                    }
                    ctx.transitions += 1;
                    match guard(|| read_signed_vint(&enc)) {
                        Ok(Ok(Some((val, len)))) if val == v && len == w => {}
                        other => ctx.violation(
                            if w == 8 { "read_signed_vint/roundtrip-width8" } else { "read_signed_vint/roundtrip" },
                            &d,
                            &format!("width {} read_signed_vint({}) = {:?}", w, hex(&enc), other.map(|r| r.map_err(|e| format!("{:?}", e)))),
                        ),
                    }
                    ctx.count("signed_fixed_ok", 1);
                }
            }
            Ok(Err(e)) => {
                if must_accept(w) {
                    ctx.violation("as_signed_vint_with_length/rejects-in-range", &d, &format!("width {}: {}", w, e));
                }
                ctx.count("signed_fixed_rejected", 1);
            }
        }
    }
    // default width
    ctx.transitions += 1;
    match guard(|| v.as_signed_vint()) {
        Err(p) => ctx.violation("as_signed_vint/panic", &d, &p),
        Ok(Ok(enc)) => {
            let w = enc.len();
            let lo = (1..=8).find(|w| may_accept(*w));
            let hi = (1..=8).find(|w| must_accept(*w));
            match lo {
                None => ctx.violation("as_signed_vint/accepts-out-of-range", &d, &format!("gave {}", hex(&enc))),
                Some(lo) => {
                    let hi = hi.unwrap_or(8);
                    if w < lo || w > hi {
                        ctx.violation("as_signed_vint/not-shortest", &d, &format!("gave {} (width {}), shortest admissible width is {}..={}", hex(&enc), w, lo, hi));
                    } else if svint_decode(&enc) != Some((v, w)) {
                        ctx.violation("as_signed_vint/wrong-bytes", &d, &format!("gave {} (reference decodes it as {:?})", hex(&enc), svint_decode(&enc)));
                    }
                    ctx.transitions += 1;
                    match guard(|| read_signed_vint(&enc)) {
                        Ok(Ok(Some((val, len)))) if val == v && len == w => {}
                        other => ctx.violation(
                            if w == 8 { "read_signed_vint/roundtrip-width8" } else { "read_signed_vint/roundtrip" },
                            &d,
                            &format!("read_signed_vint({}) = {:?}", hex(&enc), other.map(|r| r.map_err(|e| format!("{:?}", e)))),
                        ),
                    }
                }
            }
            ctx.count("signed_default_ok", 1);
        }
        Ok(Err(e)) => {
            if must_accept(8) {
                ctx.violation("as_signed_vint/rejects-in-range", &d, &format!("{}", e));
            }
            ctx.count("signed_default_rejected", 1);
        }
    }
    ctx.validated += 1;
    ctx.leave();
}

fn check_slice(ctx: &mut Ctx, s: &[u8]) {
    let d = || format!("slice {}", hex(s));
    if !ctx.enter(&d) {
        return;
    }
    let want = vint_decode(s);
    ctx.outcome(&(s.len(), match want { VintDec::Ok(_, l) => l, VintDec::NeedMore => 100, VintDec::Invalid => 101 }));
    if !s.is_empty() && (s[0] == 0 || matches!(want, VintDec::NeedMore) || s[0] <= 1) {
        ctx.nontrivial();
    }
    ctx.transitions += 2;
    let got = guard(|| read_vint(s));
    let ulen = match &got {
        Err(p) => {
            ctx.violation("read_vint/panic", &d, p);
            None
        }
        Ok(r) => {
            let ok = match (r, want) {
                (Ok(Some((v, l))), VintDec::Ok(wv, wl)) => *v == wv && *l == wl && *l <= s.len(),
                (Ok(None), VintDec::NeedMore) => true,
                (Err(_), VintDec::Invalid) => true,
                _ => false,
            };
            if !ok {
                ctx.violation("read_vint/wrong", &d, &format!("got {:?} want {:?}", r.as_ref().map_err(|e| format!("{:?}", e)), want));
            }
            ctx.count(
                match want {
                    VintDec::Ok(..) => "decode_ok",
                    VintDec::NeedMore => "decode_need_more",
                    VintDec::Invalid => "decode_invalid",
                },
                1,
            );
            match r {
                Ok(Some((_, l))) => Some(Some(*l)),
                Ok(None) => Some(None),
                Err(_) => None,
            }
        }
    };
    let gots = guard(|| read_signed_vint(s));
    match &gots {
        Err(p) => ctx.violation(if s.len() >= 8 && s[0] == 1 { "read_signed_vint/panic-width8" } else { "read_signed_vint/panic" }, &d, p),
        Ok(r) => {
            let wants = svint_decode(s);
            let ok = match (r, want) {
                (Ok(Some((v, l))), VintDec::Ok(..)) => Some((*v, *l)) == wants,
                (Ok(None), VintDec::NeedMore) => true,
                (Err(_), VintDec::Invalid) => true,
                _ => false,
            };
            if !ok {
                ctx.violation(if s.len() >= 8 && s[0] == 1 { "read_signed_vint/wrong-width8" } else { "read_signed_vint/wrong" }, &d, &format!("got {:?} want {:?}", r.as_ref().map_err(|e| format!("{:?}", e)), wants));
            }
            let slen = match r {
                Ok(Some((_, l))) => Some(Some(*l)),
                Ok(None) => Some(None),
                Err(_) => None,
            };
            if let (Some(ul), Some(sl)) = (ulen, slen) {
                // both decoders returned without error: they must agree on the consumed length
                if sl != ul {
                    ctx.violation("decoders-disagree-on-length", &d, &format!("unsigned {:?} signed {:?}", ul, sl));
                }
            }
        }
    }
    ctx.validated += 1;
    ctx.leave();
}

fn lattice_u() -> Vec<u64> {
    let mut v = Vec::new();
    for j in 0..=64u32 {
        let b: u128 = 1u128 << j;
        for d in -2i128..=2 {
            let x = b as i128 + d;
            if x >= 0 && x <= u64::MAX as i128 {
                v.push(x as u64);
            }
        }
    }
    v.sort();
    v.dedup();
    v
}

fn lattice_i() -> Vec<i64> {
    let mut v = Vec::new();
    for j in 0..=63u32 {
        let b: i128 = 1i128 << j;
        for d in -2i128..=2 {
            for s in [1i128, -1] {
                let x = s * b + d;
                if x >= i64::MIN as i128 && x <= i64::MAX as i128 {
                    v.push(x as i64);
                }
            }
        }
    }
    v.sort();
    v.dedup();
    v
}

pub fn run(ctx: &mut Ctx) {
    let ubits: u32 = ctx.tier.pick(23, 29);
    let sbits: u32 = ctx.tier.pick(22, 28);
    let tail: &[u8] = ctx.tier.pick(&[0x00, 0x7f, 0x80, 0xff][..], &[0x00, 0x01, 0x7f, 0x80, 0xff][..]);
    ctx.meta("rule", "cases: (a) every u64 below 2^ubits plus the lattice 2^j+{-2..2} (j=0..64) through as_vint, as_vint_with_length::<1..8>, is_vint, and read_vint of every encoding; (b) every i64 in (-2^sbits, 2^sbits) plus the signed lattice through as_signed_vint, as_signed_vint_with_length(1..8), read_signed_vint; (c) every byte slice of length 0-3, and for lengths 4-9 every slice with a free first byte and the remaining bytes from the tail alphabet, through read_vint and read_signed_vint. Oracle: RefCodec (u128 arithmetic). Non-trivial: values within 2 of a width boundary / slices with first byte 0 or 1 or that are proper prefixes.");
    ctx.meta("bounds", &format!("ubits={} sbits={} tail alphabet={} slice lengths 0..=9", ubits, sbits, hex(tail)));
    ctx.meta("assumptions", "64-bit target || non-first bytes of a VINT are only shifted and added, never branched on (data independence justifies the small tail alphabet for lengths >= 4) || overflow checks enabled in the checked build; the thorough tier repeats the run in a build without overflow checks");
    for c in ["as_vint_ok", "as_vint_overflow", "fixed_ok", "fixed_overflow", "is_vint_true", "is_vint_false", "signed_fixed_ok", "signed_fixed_rejected", "signed_default_ok", "decode_ok", "decode_need_more", "decode_invalid"] {
        ctx.expect_nonzero(c);
    }

    // (a) unsigned values: sharded by blocks of 4096
    let n: u64 = 1 << ubits;
    let mut blk = 0u64;
    let mut v = 0u64;
    while v < n && !ctx.should_stop() {
        if ctx.mine(blk) {
            for x in v..v + 4096 {
                check_unsigned(ctx, x);
            }
        }
        blk += 1;
        v += 4096;
    }
    for (i, x) in lattice_u().into_iter().enumerate() {
        if x >= n && ctx.mine(i as u64) {
            check_unsigned(ctx, x);
        }
    }
    // (b) signed values
    let m: i64 = 1 << sbits;
    let mut blk = 0u64;
    let mut v = -m + 1;
    while v < m && !ctx.should_stop() {
        if ctx.mine(blk) {
            for x in v..(v + 4096).min(m) {
                check_signed(ctx, x);
            }
        }
        blk += 1;
        v += 4096;
    }
    for (i, x) in lattice_i().into_iter().enumerate() {
        if (x <= -m || x >= m) && ctx.mine(i as u64) {
            check_signed(ctx, x);
        }
    }
    // (c) slices
    if ctx.mine(0) {
        check_slice(ctx, &[]);
    }
    for first in 0..=255u8 {
        if !ctx.mine(first as u64) || ctx.should_stop() {
            continue;
        }
        check_slice(ctx, &[first]);
        for b in 0..=255u8 {
            check_slice(ctx, &[first, b]);
            for c in 0..=255u8 {
                check_slice(ctx, &[first, b, c]);
            }
        }
        for len in 4..=9usize {
            let k = tail.len();
            let total = k.pow((len - 1) as u32);
            let mut buf = vec![first; len];
            for mut code in 0..total {
                for slot in buf.iter_mut().skip(1) {
                    *slot = tail[code % k];
                    code /= k;
                }
                check_slice(ctx, &buf);
            }
        }
    }
}
