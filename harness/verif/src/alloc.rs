//! Counting global allocator (C17): live bytes, peak, largest single request. Refuses absurd requests so that a
//! hostile size can never take the sandbox down (a refused request aborts the worker; the supervisor names the case).

use std::alloc::{GlobalAlloc, Layout, System};
use std::sync::atomic::{AtomicUsize, Ordering::Relaxed};

pub struct Counting;

pub static LIVE: AtomicUsize = AtomicUsize::new(0);
pub static PEAK: AtomicUsize = AtomicUsize::new(0);
pub static MAXREQ: AtomicUsize = AtomicUsize::new(0);
/// single requests above this are refused (null)
pub static REFUSE_ABOVE: AtomicUsize = AtomicUsize::new(8 << 30);

#[inline]
fn add(n: usize) {
    let l = LIVE.fetch_add(n, Relaxed) + n;
    if l > PEAK.load(Relaxed) {
        PEAK.store(l, Relaxed);
    }
    if n > MAXREQ.load(Relaxed) {
        MAXREQ.store(n, Relaxed);
    }
}

unsafe impl GlobalAlloc for Counting {
    unsafe fn alloc(&self, l: Layout) -> *mut u8 {
        if l.size() > REFUSE_ABOVE.load(Relaxed) {
            return std::ptr::null_mut();
        }
        let p = System.alloc(l);
        if !p.is_null() {
            add(l.size());
        }
        p
    }
    unsafe fn alloc_zeroed(&self, l: Layout) -> *mut u8 {
        if l.size() > REFUSE_ABOVE.load(Relaxed) {
            return std::ptr::null_mut();
        }
        let p = System.alloc_zeroed(l);
        if !p.is_null() {
            add(l.size());
        }
        p
    }
    unsafe fn dealloc(&self, p: *mut u8, l: Layout) {
        LIVE.fetch_sub(l.size(), Relaxed);
        System.dealloc(p, l)
    }
    unsafe fn realloc(&self, p: *mut u8, l: Layout, new: usize) -> *mut u8 {
        if new > REFUSE_ABOVE.load(Relaxed) {
            return std::ptr::null_mut();
        }
        let q = System.realloc(p, l, new);
        if !q.is_null() {
            LIVE.fetch_sub(l.size(), Relaxed);
            add(new);
        }
        q
    }
}

/// (live now, reset peak to live)
pub fn mark() -> usize {
    let l = LIVE.load(Relaxed);
    PEAK.store(l, Relaxed);
    MAXREQ.store(0, Relaxed);
    l
}

pub fn peak_since(mark: usize) -> usize {
    PEAK.load(Relaxed).saturating_sub(mark)
}

pub fn max_request() -> usize {
    MAXREQ.load(Relaxed)
}
