//! C05 — the iterator is total: no panic, no hang, fused, linear output, I/O errors surfaced.

use std::panic::{catch_unwind, AssertUnwindSafe};

use ebml_iterable::TagIterator;

use crate::ctx::Ctx;
use crate::gen::{self, SIGMA};
use crate::obs::{injected_msg, make_iter, norm_err, panic_msg, step_next, Cfg, MaxSize, NErr, Script, Step};
use crate::refmodel::{hex, id_bytes, vint_encode};
use crate::spec::*;

#[derive(Clone, Debug, PartialEq, Eq, Hash)]
pub enum Ev {
    Item,
    None,
    Err(String),
    ReadErr(String),
    RecoverOk,
    RecoverErr(String),
    RecoverReadErr(String),
}

pub struct Hist {
    pub events: Vec<Ev>,
    pub violation: Option<(String, String)>,
    pub calls: u64,
    pub fails_served: usize,
}

/// Execute one API history: `next()` by default, `try_recover()` instead at the op indexes in `recover_at`.
pub fn run_history(input: &[u8], cfg: &Cfg, steps: &[Step], recover_at: &[usize]) -> Hist {
    let src = Script::new(input, steps);
    let mut it: TagIterator<Script, V> = make_iter(src, cfg);
    let mut events: Vec<Ev> = Vec::new();
    let mut calls = 0u64;
    let ok_bound = 2 * input.len() + 2 * 5 + 2;
    let mut oks = 0usize;
    let mut after_error = 0usize;
    let mut last_offset_before_recover;
    let max_ops = 2 * input.len() + 24;
    let mut violation: Option<(String, String)> = None;
    let mut op = 0usize;
    let mut fused_probe = 0usize;
    while op < max_ops {
        if recover_at.contains(&op) {
            last_offset_before_recover = it.last_emitted_tag_offset();
            calls += 1;
            let r = catch_unwind(AssertUnwindSafe(|| it.try_recover()));
            match r {
                Err(p) => {
                    violation = Some(("try_recover/panic".into(), panic_msg(p)));
                    break;
                }
                Ok(Ok(())) => events.push(Ev::RecoverOk),
                Ok(Err(e)) => match norm_err(&e) {
                    NErr::Eof { .. } => events.push(Ev::RecoverErr("UnexpectedEOF".into())),
                    NErr::Read { kind: _, msg } => events.push(Ev::RecoverReadErr(msg)),
                    other => {
                        violation = Some(("try_recover/fails-with-other-than-eof-or-io".into(), other.short()));
                        break;
                    }
                },
            }
            let _ = last_offset_before_recover;
            op += 1;
            continue;
        }
        calls += 1;
        match step_next(&mut it) {
            Err(p) => {
                violation = Some((format!("next/panic{}", if after_error > 0 { "-after-error" } else { "" }), p));
                break;
            }
            Ok(None) => {
                events.push(Ev::None);
                let exhausted = it.get_ref().exhausted() && it.get_ref().step_i >= steps.len();
                if exhausted {
                    fused_probe += 1;
                    if fused_probe > 3 {
                        break;
                    }
                } else if fused_probe > 0 {
                    // (cannot happen: exhaustion is monotone)
                }
            }
            Ok(Some(Ok(_))) => {
                if fused_probe > 0 && recover_at.iter().all(|r| *r < op) {
                    violation = Some(("not-fused/item-after-none-with-source-exhausted".into(), format!("op #{}", op)));
                    break;
                }
                oks += 1;
                events.push(Ev::Item);
                if oks > ok_bound {
                    violation = Some(("output-not-linear-in-input".into(), format!("{} successful items from {} input bytes", oks, input.len())));
                    break;
                }
            }
            Ok(Some(Err(e))) => {
                if fused_probe > 0 {
                    violation = Some(("not-fused/error-after-none-with-source-exhausted".into(), e.short()));
                    break;
                }
                match e {
                    NErr::Read { msg, .. } => events.push(Ev::ReadErr(msg)),
                    other => {
                        events.push(Ev::Err(other.kind().to_string()));
                        after_error += 1;
                        // post-error output is unconstrained except for panics: at most 3 further calls
                        if after_error > 3 {
                            break;
                        }
                    }
                }
            }
        }
        op += 1;
    }
    if violation.is_none() && op >= max_ops {
        violation = Some(("no-termination/op-budget-exhausted".into(), format!("{} calls without reaching a terminal state", op)));
    }
    let fails_served = it.get_ref().steps[..it.get_ref().step_i.min(steps.len())].iter().filter(|s| matches!(s, Step::Fail(_))).count();
    Hist { events, violation, calls, fails_served }
}

fn check_history(ctx: &mut Ctx, input: &[u8], cfg: &Cfg, steps: &[Step], recover_at: &[usize], origin: &str) -> usize {
    let d = || format!("{} input={} {} steps={:?} try_recover_at_ops={:?}", origin, hex(input), cfg.short(), steps, recover_at);
    if !ctx.enter(&d) {
        // replay modes: the caller sizes its enumeration by the length of the plain history, which must therefore
        // not depend on whether this case was executed
        if steps.is_empty() && recover_at.is_empty() {
            return run_history(input, cfg, steps, recover_at).events.len();
        }
        return 0;
    }
    let h = run_history(input, cfg, steps, recover_at);
    ctx.transitions += h.calls;
    let nev = h.events.len();
    if h.events.iter().any(|e| matches!(e, Ev::Err(_) | Ev::ReadErr(_) | Ev::RecoverOk | Ev::RecoverErr(_) | Ev::RecoverReadErr(_))) {
        ctx.nontrivial();
    }
    if h.events.iter().any(|e| matches!(e, Ev::RecoverOk)) {
        ctx.count("recover_ok", 1);
    }
    ctx.outcome(&h.events);
    if let Some((k, det)) = &h.violation {
        ctx.violation(k, &d, &format!("{} | events {:?}", det, h.events));
    } else {
        // every injected failure that the source served must surface exactly once, in order, with its message
        let want: Vec<String> = steps.iter().filter_map(|s| if let Step::Fail(n) = s { Some(injected_msg(*n)) } else { None }).take(h.fails_served).collect();
        let got: Vec<String> = h.events.iter().filter_map(|e| match e {
            Ev::ReadErr(m) | Ev::RecoverReadErr(m) => Some(m.clone()),
            _ => None,
        }).collect();
        if h.fails_served > 0 {
            ctx.count("injected_errors_served", h.fails_served as u64);
        }
        if want != got {
            let in_recover = !recover_at.is_empty();
            ctx.violation(if in_recover { "io-error/not-surfaced-exactly-once-(history-with-try_recover)" } else { "io-error/not-surfaced-exactly-once" }, &d, &format!("source failed with {:?}, iterator reported {:?} | events {:?}", want, got, h.events));
        }
    }
    ctx.validated += 1;
    ctx.leave();
    nev
}

/// Adversarial header tokens (DESIGN §3.2 K).
pub fn tokens(full: bool) -> Vec<Vec<u8>> {
    let ids: Vec<u64> = if full {
        vec![ID_ROOT, ID_U, ID_I, ID_F, ID_S, ID_B, ID_M, ID_N, ID_L, ID_EBML, ID_VOID, ID_TAG, 0xf2, 0x4f00]
    } else {
        vec![ID_ROOT, ID_U, ID_I, ID_F, ID_S, ID_M, ID_L, ID_VOID, 0xf2]
    };
    let mut sizes: Vec<Vec<u8>> = vec![vec![0x80], vec![0x81], vec![0x88], vec![0x89], vec![0xff], vint_encode((1 << 56) - 1, 8).unwrap(), vint_encode(1, 8).unwrap(), vint_encode((1 << 56) - 2, 8).unwrap()];
    if full {
        sizes.push(vec![0x82]);
        sizes.push(vint_encode(2, 2).unwrap());
        sizes.push(vint_encode(0x3fff, 2).unwrap());
        sizes.push(vint_encode(5_000_000_000, 5).unwrap());
    }
    let payloads: Vec<Vec<u8>> = if full { vec![vec![], vec![0x81], vec![0xff, 0x80], vec![0x00; 8], vec![0x80; 9]] } else { vec![vec![], vec![0x81], vec![0xc3; 8]] };
    let mut out = Vec::new();
    for id in &ids {
        for s in &sizes {
            for p in &payloads {
                let mut t = id_bytes(*id);
                t.extend_from_slice(s);
                t.extend_from_slice(p);
                out.push(t);
            }
        }
    }
    out.push(vec![0x00]);
    out
}

pub fn configs(quick: bool) -> Vec<Cfg> {
    let all = vec![ID_EBML, ID_ROOT, ID_M, ID_N, ID_K, ID_L, ID_P];
    let mut v = Vec::new();
    let bufsets: Vec<Vec<u64>> = vec![vec![], vec![ID_ROOT], vec![ID_M], all];
    for allow in 0..8u8 {
        for (bi, b) in bufsets.iter().enumerate() {
            if quick && (bi == 1 || bi == 2) && allow != 0 && allow != 7 {
                continue;
            }
            for cap in [None, Some(0), Some(3), Some(16)] {
                if cap.is_some() && bi != 0 && quick {
                    continue;
                }
                for max in [MaxSize::Default, MaxSize::Limit(5), MaxSize::Unlimited] {
                    if max != MaxSize::Default && (cap.is_some() || bi != 0) {
                        continue;
                    }
                    for eof_end in [true, false] {
                        if !eof_end && (cap.is_some() || max != MaxSize::Default) {
                            continue;
                        }
                        v.push(Cfg { allow, buffered: b.clone(), cap, max_size: max, eof_end });
                    }
                }
            }
        }
    }
    v
}

pub fn run(ctx: &mut Ctx) {
    let quick = ctx.quick();
    let n_a = ctx.tier.pick(5, 6);
    let n_b = ctx.tier.pick(3, 4);
    ctx.meta("rule", "cases: API histories on the real iterator over a scripted source. (A) every Σ string up to length nA and every sequence of <= L adversarial header tokens (zero-length numerics, 8-byte ids/sizes, all-ones sizes, sizes of 2^56-2 and 5 GB) x a configuration lattice (8 tolerance subsets x buffered sets x capacities {default,0,3,16} x size limits {default,5,none} x EOF closing on/off): next() until None, then 3 more calls (fused), or <= 3 calls after an error. (B) every Σ string up to length nB and every token x {strict, all tolerated, buffered} x try_recover() replacing next() at every set of <= 2 op positions (incl. before the first next and after None) x an injected source error at read k (<= 2 per history) x short reads; the same over every single mutation (byte replaced by each Σ byte, byte deleted) of every small document. (C) inputs of tens of thousands of adjacent elements per shape (known/unknown-size masters, leaves), unbuffered and buffered; (D) a specification with a recursive global master and an input nested 10 000 (50 000) levels deep, on a 1 MiB stack, buffered and not. Oracle: every call returns (catch_unwind + watchdog; a stack overflow aborts the worker and is attributed to the case), successful items <= 2*len+12, fused after None with the source exhausted, each injected error surfaces exactly once as ReadError with its message, try_recover fails only with UnexpectedEOF/ReadError. Non-trivial: histories with an error or a recover call.");
    ctx.meta("bounds", &format!("nA={} nB={} token sequences L<={}; <=2 try_recover calls, <=2 injected errors", n_a, n_b, ctx.tier.pick(2, 2)));
    ctx.meta("assumptions", "post-error output is unconstrained except for panics (at most 3 further calls are made) || 64 KiB size limit is not applied here: declared sizes above the limit are rejected by the library before allocation (C17), sizes below it with missing payload allocate what they declare");
    for c in ["recover_ok", "injected_errors_served", "long_inputs", "deep_nesting_inputs", "mutated_documents_with_recovery"] {
        ctx.expect_nonzero(c);
    }
    let cfgs = configs(quick);
    let (shard, nshards) = (ctx.shard, ctx.nshards);
    // (A) base histories
    gen::strings(&SIGMA, n_a, shard, nshards, &mut |s| {
        for c in &cfgs {
            check_history(ctx, s, c, &[], &[], "sigma");
        }
        !ctx.should_stop()
    });
    let toks = tokens(!quick);
    let mut idx = 0u64;
    let mut buf: Vec<u8> = Vec::new();
    // token sizes up to 5 GB are below the default limit: use a 1 MiB limit so that a missing payload does not
    // make the harness allocate gigabytes (C17 owns allocation behaviour)
    let tok_cfgs: Vec<Cfg> = cfgs.iter().map(|c| { let mut c = c.clone(); if c.max_size == MaxSize::Default || c.max_size == MaxSize::Unlimited { c.max_size = MaxSize::Limit(1 << 20); } c }).collect();
    let mut tok_cfgs_dedup: Vec<Cfg> = Vec::new();
    for c in tok_cfgs {
        if !tok_cfgs_dedup.contains(&c) {
            tok_cfgs_dedup.push(c);
        }
    }
    for t1 in &toks {
        for t2 in std::iter::once(&Vec::new()).chain(toks.iter()) {
            let mine = ctx.mine(idx);
            idx += 1;
            if !mine || ctx.should_stop() {
                continue;
            }
            buf.clear();
            buf.extend_from_slice(t1);
            buf.extend_from_slice(t2);
            for c in &tok_cfgs_dedup {
                check_history(ctx, &buf, c, &[], &[], "tokens");
            }
        }
    }
    // (B) recover / injected error deviations
    let mut lim = Cfg::strict();
    lim.max_size = MaxSize::Limit(1 << 20);
    let mut tol = lim.clone().with_allow(7);
    tol.eof_end = true;
    let buffered = lim.clone().with_buffered(&[ID_ROOT, ID_M]);
    let mut small = lim.clone().with_cap(Some(0));
    small.eof_end = false;
    let bcfgs = vec![lim.clone(), tol, buffered, small];
    let mut run_b = |ctx: &mut Ctx, s: &[u8], origin: &str| {
        for c in &bcfgs {
            // base, to learn how many ops the plain history has
            let nev = check_history(ctx, s, c, &[], &[], origin);
            let p = nev + 1;
            // step schedules: none, one injected error at read k, short reads + error
            let mut scheds: Vec<Vec<Step>> = vec![vec![]];
            for k in 0..3usize {
                let mut st = vec![Step::Full; k];
                st.push(Step::Fail(1));
                scheds.push(st);
            }
            scheds.push(vec![Step::Max(1), Step::Fail(1), Step::Max(1), Step::Fail(2)]);
            scheds.push(vec![Step::Fail(1), Step::Fail(2)]);
            scheds.push(vec![Step::Max(2), Step::Max(1), Step::Fail(1)]);
            for st in &scheds {
                if !st.is_empty() {
                    check_history(ctx, s, c, st, &[], origin);
                }
                for r1 in 0..p.min(8) {
                    check_history(ctx, s, c, st, &[r1], origin);
                    for r2 in r1 + 1..p.min(8) + 1 {
                        check_history(ctx, s, c, st, &[r1, r2], origin);
                    }
                }
            }
        }
    };
    gen::strings(&SIGMA, n_b, shard, nshards, &mut |s| {
        run_b(ctx, s, "sigma");
        !ctx.should_stop()
    });
    for (i, t) in toks.iter().enumerate() {
        if ctx.mine(i as u64) && !ctx.should_stop() {
            run_b(ctx, t, "token");
        }
    }
    // junk + valid documents for successful recoveries
    let docs: Vec<Vec<u8>> = vec![
        vec![0x81, 0x85, 0x82, 0x81, 0x01, 0x00, 0x00],
        vec![0x02, 0x03, 0x81, 0x83, 0x82, 0x81, 0x07],
        vec![0x81, 0x88, 0x82, 0x81, 0x01, 0x05, 0x06, 0x82, 0x81, 0x02, 0x81, 0x80],
        vec![0x1a, 0x45, 0xdf, 0xa3, 0x84, 0x42, 0x86, 0x81, 0x01, 0x09, 0x81, 0x83, 0x88, 0x81, 0x42],
    ];
    for (i, dct) in docs.iter().enumerate() {
        if ctx.mine(i as u64) {
            run_b(ctx, dct, "junk-doc");
        }
    }
    // every single mutation of the small known-size documents: a size field that no longer matches its content is
    // where recovery walks over the declared end of an open master
    {
        let rs = crate::spec::v_refspec();
        let p = crate::docs::DocParams { max_nodes: ctx.tier.pick(3, 4), globals: vec![ID_VOID], exclude: vec![ID_EBML, ID_P, ID_K, ID_L, ID_F, ID_S, ID_I], unknown_subsets: !quick, devs: 0, payload_classes: false, big_payloads: false, noncanonical: false, width_devs: false, extras: false, all_widths: false };
        let kinds = [crate::docs::MutKind::Replace, crate::docs::MutKind::Delete];
        crate::docs::for_each_doc(ctx, &rs, &p, &mut |ctx, doc| {
            let (bytes, lay) = crate::refmodel::ref_encode(doc);
            let bounds: Vec<usize> = lay.iter().map(|l| l.tag_start).collect();
            crate::docs::for_each_mutation(&bytes, &bounds, &SIGMA, &kinds, &mut |m, _k, _pos| {
                ctx.count("mutated_documents_with_recovery", 1);
                run_b(ctx, m, "mutated-doc");
                !ctx.should_stop()
            });
            !ctx.should_stop()
        });
    }
    ctx.checkpoint();
    // (C) long inputs: call depth must not grow with the number of elements (a stack overflow aborts the worker
    // and is reported by the supervisor as "library call did not return")
    {
        let n = ctx.tier.pick(60_000usize, 200_000);
        let mut longs: Vec<(String, Vec<u8>, Cfg)> = Vec::new();
        let mk = |outer: &[u8], elem: &[u8], n: usize| {
            let mut v = outer.to_vec();
            for _ in 0..n {
                v.extend_from_slice(elem);
            }
            v
        };
        let big = Cfg { allow: 0, buffered: vec![], cap: None, max_size: MaxSize::Unlimited, eof_end: true };
        for (name, elem) in [("empty known-size M", &[0x8d, 0x80][..]), ("unknown-size M", &[0x8d, 0xff][..]), ("known-size M[MU]", &[0x8d, 0x83, 0x8e, 0x81, 0x01][..]), ("unknown-size M[MU]", &[0x8d, 0xff, 0x8e, 0x81, 0x01][..]), ("leaf U", &[0x82, 0x81, 0x01][..])] {
            for (bname, set) in [("unbuffered", vec![]), ("M buffered", vec![ID_M]), ("Root and M buffered", vec![ID_ROOT, ID_M])] {
                let bytes = mk(&[0x81, 0xff], elem, n);
                longs.push((format!("Root(unknown size)[{} x {}] {}", n, name, bname), bytes, big.clone().with_buffered(&set)));
            }
        }
        for (i, (name, bytes, cfg)) in longs.iter().enumerate() {
            if !ctx.mine(i as u64) {
                continue;
            }
            let d = || format!("long input: {} ({} bytes) {}", name, bytes.len(), cfg.short());
            if !ctx.enter(&d) {
                continue;
            }
            ctx.count("long_inputs", 1);
            ctx.nontrivial();
            let obs = crate::obs::parse_slice::<V>(bytes, cfg);
            ctx.transitions += obs.items.len() as u64 + 1;
            if !obs.clean() {
                ctx.violation("long-input/does-not-parse-cleanly", &d, &format!("{} items then {}", obs.items.len(), obs.term.short()));
            }
            ctx.validated += 1;
            ctx.leave();
        }
    }
    // (D) deep nesting: a specification with a recursive (global) master; the nesting depth comes from the input, so
    // the library must not recurse on it. Runs on a 1 MiB stack; the items are leaked on purpose (dropping a
    // 10 000-level Full value recurses in the caller's own type, which is not the library's doing).
    {
        let depth = ctx.tier.pick(10_000usize, 50_000);
        for (i, buffered) in [false, true].into_iter().enumerate() {
            if !ctx.mine(100 + i as u64) {
                continue;
            }
            let d = || format!("deep nesting: {} nested unknown-size instances of a global master (-)/G, {} (stack 1 MiB)", depth, if buffered { "G buffered" } else { "unbuffered" });
            if !ctx.enter(&d) {
                continue;
            }
            ctx.count("deep_nesting_inputs", 1);
            ctx.nontrivial();
            let r = std::thread::Builder::new()
                .stack_size(1 << 20)
                .spawn(move || -> Result<usize, String> {
                    let rs = RefSpec {
                        elems: vec![
                            ElemDef { name: "G".into(), id: 0x81, ty: Ty::Master, path: vec![PP::Glob(None, None)] },
                            ElemDef { name: "Crc32".into(), id: ID_CRC, ty: Ty::B, path: vec![PP::Glob(Some(1), None)] },
                            ElemDef { name: "Void".into(), id: ID_VOID, ty: Ty::B, path: vec![PP::Glob(None, None)] },
                        ],
                    };
                    install_refspec(&rs);
                    let mut bytes = Vec::with_capacity(2 * depth);
                    for _ in 0..depth {
                        bytes.extend_from_slice(&[0x81, 0xff]);
                    }
                    let cfg = Cfg { allow: 0, buffered: if buffered { vec![0x81] } else { vec![] }, cap: None, max_size: MaxSize::Default, eof_end: true };
                    let mut it: TagIterator<&[u8], RT> = make_iter(&bytes[..], &cfg);
                    let mut n = 0usize;
                    loop {
                        match catch_unwind(AssertUnwindSafe(|| it.next())) {
                            Err(p) => return Err(format!("panic: {}", panic_msg(p))),
                            Ok(None) => break,
                            Ok(Some(Err(e))) => return Err(format!("error after {} items: {}", n, norm_err(&e).short())),
                            Ok(Some(Ok(t))) => {
                                n += 1;
                                                                std::mem::forget(t);
                            }
                        }
                        if n > 4 * depth + 8 {
                            return Err("item budget exhausted".into());
                        }
                    }
                    Ok(n)
                })
                .expect("machinery: spawn")
                .join();
            ctx.transitions += 2 * depth as u64;
            match r {
                Err(_) => ctx.violation("deep-nesting/harness-thread-panicked", &d, "machinery"),
                Ok(Err(e)) => ctx.violation("deep-nesting/does-not-parse", &d, &e),
                Ok(Ok(n)) => {
                    let want = if buffered { 1 } else { 2 * depth };
                    if n != want {
                        ctx.violation("deep-nesting/item-count", &d, &format!("{} items, expected {}", n, want));
                    }
                }
            }
            ctx.validated += 1;
            ctx.leave();
        }
    }
}
