#![allow(dead_code, unused_imports, unused_variables)]
mod alloc;
mod ctx;
mod decls;
mod gen;
mod docs;
mod obs;
mod refmodel;
mod spec;
mod wmodel;

mod c01;
mod c02;
mod c03;
mod c04;
mod c05;
mod c06;
mod c07;
mod c08;
mod c09;
mod c10;
mod c11;
mod c12;
mod c13;
mod c14;
mod c15;
mod c16;
mod c17;
mod c18;
mod c19;
mod c20;

use ctx::{Ctx, Mode, Tier};

#[global_allocator]
static GLOBAL: alloc::Counting = alloc::Counting;

const PROPS: &[&str] = &["C01", "C02", "C03", "C04", "C05", "C06", "C07", "C08", "C09", "C10", "C11", "C12", "C13", "C14", "C15", "C16", "C17", "C18", "C19", "C20"];

fn run_check(ctx: &mut Ctx) {
    match ctx.prop.as_str() {
        "C01" => c01::run(ctx),
        "C02" => c02::run(ctx),
        "C03" => c03::run(ctx),
        "C04" => c04::run(ctx),
        "C05" => c05::run(ctx),
        "C06" => c06::run(ctx),
        "C07" => c07::run(ctx),
        "C08" => c08::run(ctx),
        "C09" => c09::run(ctx),
        "C10" => c10::run(ctx),
        "C11" => c11::run(ctx),
        "C12" => c12::run(ctx),
        "C13" => c13::run(ctx),
        "C14" => c14::run(ctx),
        "C15" => c15::run(ctx),
        "C16" => c16::run(ctx),
        "C17" => c17::run(ctx),
        "C18" => c18::run(ctx),
        "C19" => c19::run(ctx),
        "C20" => c20::run(ctx),
        p => panic!("machinery: unknown property {}", p),
    }
}

fn usage() -> ! {
    eprintln!("usage: verif <Cxx> <quick|thorough> | verif worker <Cxx> <tier> <i>/<n> [--careful <from> | --only <idx>]");
    std::process::exit(2);
}

fn main() {
    let args: Vec<String> = std::env::args().collect();
    if args.len() < 3 {
        usage();
    }
    if args[1] == "count" {
        let rs = spec::v_refspec();
        for n in 1..=args[2].parse::<usize>().unwrap() {
            for (name, globals) in [("no globals", vec![]), ("Tag+Void", vec![spec::ID_TAG, spec::ID_VOID]), ("all globals", vec![spec::ID_TAG, spec::ID_VOID, spec::ID_CRC])] {
                let g = gen::ForestGen { rs: &rs, max_nodes: n, globals, exclude: vec![] };
                let mut c = 0u64;
                let mut masters = 0u64;
                g.run(&mut |s| { c += 1; masters += s.iter().filter(|x| rs.ty(x.1) == Some(spec::Ty::Master)).count() as u64; true });
                println!("N={} {}: forests={} avg masters={:.2}", n, name, c, masters as f64 / c as f64);
            }
        }
        return;
    }
    if args[1] == "gen-c18" {
        let quick = args[2] == "quick";
        if let Err(e) = c18::generate(quick) {
            eprintln!("gen-c18 failed: {}", e);
            std::process::exit(2);
        }
        return;
    }
    if args[1] == "grown" {
        let i: usize = args[2].parse().unwrap();
        let cap = args.get(3).and_then(|c| c.parse::<usize>().ok());
        let doc = &docs::grown_buffer_docs()[i];
        let (bytes, _) = refmodel::ref_encode(doc);
        println!("{}", refmodel::hex(&bytes));
        let obs = obs::parse_slice::<spec::V>(&bytes, &obs::Cfg::strict().with_cap(cap).with_allow(1));
        println!("{}", obs.short());
        return;
    }
    if args[1] == "parse" {
        // debugging aid: verif parse <hex> [capacity] [allow] — strict parse of the bytes over V, printed
        let bytes: Vec<u8> = (0..args[2].len() / 2).map(|i| u8::from_str_radix(&args[2][2 * i..2 * i + 2], 16).expect("hex")).collect();
        let cap = args.get(3).and_then(|c| c.parse::<usize>().ok());
        let allow = args.get(4).and_then(|c| c.parse::<u8>().ok()).unwrap_or(0);
        let obs = obs::parse_slice::<spec::V>(&bytes, &obs::Cfg::strict().with_cap(cap).with_allow(allow));
        println!("{}", obs.short());
        return;
    }
    if args[1] == "worker" {
        if args.len() < 5 {
            usage();
        }
        let prop = args[2].clone();
        let tier = Tier::parse(&args[3]);
        let (s, n) = args[4].split_once('/').unwrap_or_else(|| usage());
        let shard: u64 = s.parse().unwrap();
        let nshards: u64 = n.parse().unwrap();
        let mut mode = Mode::Normal;
        if args.len() >= 7 {
            match args[5].as_str() {
                "--careful" => mode = Mode::Careful(args[6].parse().unwrap()),
                "--only" => mode = Mode::Only(args[6].parse().unwrap()),
                _ => usage(),
            }
        }
        // silence panic messages from the library (they are caught and recorded); remember the last one
        std::panic::set_hook(Box::new(|info| {
            LAST_PANIC.with(|l| *l.borrow_mut() = format!("{}", info));
        }));
        ctx::start_watchdog(std::env::var("VERIF_HANG_S").ok().and_then(|s| s.parse().ok()).unwrap_or(60));
        let r = std::panic::catch_unwind(std::panic::AssertUnwindSafe(|| {
            let mut c = Ctx::new(&prop, tier, shard, nshards, mode);
            run_check(&mut c);
            c.finish();
        }));
        if r.is_err() {
            let m = LAST_PANIC.with(|l| l.borrow().clone());
            println!("MACHINERY {}", ctx::one_line(&m));
            std::process::exit(2);
        }
        return;
    }
    let prop = args[1].as_str();
    if !PROPS.contains(&prop) {
        eprintln!("unknown property {}", prop);
        std::process::exit(2);
    }
    let tier = Tier::parse(&args[2]);
    std::process::exit(ctx::supervise(prop, tier));
}

thread_local! {
    static LAST_PANIC: std::cell::RefCell<String> = const { std::cell::RefCell::new(String::new()) };
}
