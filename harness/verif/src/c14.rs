//! C14 — recovery after inserted junk resumes at the next tag and loses nothing else.

use std::panic::{catch_unwind, AssertUnwindSafe};

use ebml_iterable::TagIterator;

use crate::ctx::Ctx;
use crate::docs::{self, DocParams};
use crate::gen;
use crate::obs::{make_iter, norm_err, panic_msg, step_next, Cfg, NErr, Script, Step};
use crate::refmodel::{flatten, flatten_ex, hex, ref_encode, Lay, NItem};
use crate::spec::*;

#[derive(Debug)]
struct Run {
    before: Vec<(NItem, usize)>,
    errors: Vec<NErr>,
    recover: Result<(), NErr>,
    after: Vec<(NItem, usize)>,
    /// how the part after the recovery ended
    tail: String,
    calls: u64,
}

fn run_with_recovery(input: &[u8], cfg: &Cfg) -> Result<Run, (String, String)> {
    run_with_recovery_on(input, input.len(), cfg)
}

fn run_with_recovery_on<R: std::io::Read>(src: R, input_len: usize, cfg: &Cfg) -> Result<Run, (String, String)> {
    let input = vec![0u8; 0];
    let _ = &input;
    let mut it: TagIterator<R, V> = make_iter(src, cfg);
    let mut before = Vec::new();
    let mut errors = Vec::new();
    let mut calls = 0u64;
    let budget = 2 * input_len + 64;
    // until the first error
    loop {
        calls += 1;
        if calls as usize > budget {
            return Err(("no-termination".into(), "budget".into()));
        }
        match step_next(&mut it) {
            Err(p) => return Err(("next/panic".into(), p)),
            Ok(None) => return Ok(Run { before, errors, recover: Ok(()), after: vec![], tail: "no error before end".into(), calls }),
            Ok(Some(Ok(x))) => before.push(x),
            Ok(Some(Err(e))) => {
                errors.push(e);
                break;
            }
        }
    }
    calls += 1;
    let r = catch_unwind(AssertUnwindSafe(|| it.try_recover()));
    let recover = match r {
        Err(p) => return Err(("try_recover/panic".into(), panic_msg(p))),
        Ok(Ok(())) => Ok(()),
        Ok(Err(e)) => Err(norm_err(&e)),
    };
    let mut after = Vec::new();
    let mut tail = String::new();
    if recover.is_ok() {
        loop {
            calls += 1;
            if calls as usize > budget {
                return Err(("no-termination".into(), "budget".into()));
            }
            match step_next(&mut it) {
                Err(p) => return Err(("next/panic-after-recovery".into(), p)),
                Ok(None) => {
                    tail = "None".into();
                    break;
                }
                Ok(Some(Ok(x))) => after.push(x),
                Ok(Some(Err(e))) => {
                    tail = format!("Err({})", e.short());
                    errors.push(e);
                    break;
                }
            }
        }
    }
    Ok(Run { before, errors, recover, after, tail, calls })
}

fn junk_runs(max_len: usize) -> Vec<Vec<u8>> {
    let alpha = [0x00u8, 0x02, 0x05, 0x0f];
    let mut out: Vec<Vec<u8>> = Vec::new();
    // every string up to length 3, then structured longer runs
    let mut cur: Vec<Vec<u8>> = vec![vec![]];
    for _ in 0..3.min(max_len) {
        let mut next = Vec::new();
        for c in &cur {
            for a in alpha {
                let mut n = c.clone();
                n.push(a);
                out.push(n.clone());
                next.push(n);
            }
        }
        cur = next;
    }
    for len in 4..=max_len {
        for a in alpha {
            out.push(vec![a; len]);
        }
        let mixed: Vec<u8> = (0..len).map(|i| alpha[i % 4]).collect();
        out.push(mixed.clone());
        out.push(mixed.into_iter().rev().collect());
    }
    out
}

/// The same insertions with one master id buffered, wherever the junk does not fall inside (or directly behind a
/// still open) buffered master: the masters before and after the junk are complete and must come out as Full items.
#[allow(clippy::too_many_arguments)]
fn buffered_variants(ctx: &mut Ctx, rs: &RefSpec, doc: &Vec<crate::refmodel::Node>, bytes: &[u8], lay: &[Lay], flat: &[(NItem, usize)], flat_ex: &[(NItem, usize, usize)], junks: &[Vec<u8>]) {
    let mut present: Vec<u64> = Vec::new();
    crate::refmodel::visit(doc, &mut |n, _| {
        if n.is_master() && !present.contains(&n.id) {
            present.push(n.id);
        }
    }, 0);
    for (li, l) in lay.iter().enumerate() {
        let b = l.tag_start;
        let enclosing: Vec<&Lay> = lay.iter().filter(|k| k.is_master && k.data_start <= b && b < k.end).collect();
        // ancestors in the tree (known- and unknown-size)
        let mut ancestors: Vec<u64> = Vec::new();
        let mut d = l.depth;
        for k in (0..li).rev() {
            if lay[k].depth < d {
                ancestors.push(lay[k].id);
                d = lay[k].depth;
            }
        }
        let mut seen = 0;
        let mut fi = 0;
        for (k, (it, _)) in flat.iter().enumerate() {
            if !it.is_end() {
                if seen == li {
                    fi = k;
                    break;
                }
                seen += 1;
            }
        }
        let mut deferred = 0;
        while deferred < fi && flat_ex[fi - 1 - deferred].0.is_end() && lay[flat_ex[fi - 1 - deferred].2].unknown {
            deferred += 1;
        }
        let still_open: Vec<u64> = flat[fi - deferred..fi].iter().map(|x| x.0.id()).collect();
        for id in &present {
            if ancestors.contains(id) || still_open.contains(id) {
                continue;
            }
            let set = [*id];
            for junk in junks.iter().filter(|j| j.len() <= 2 || j.len() == 5) {
                let j = junk.len();
                if !enclosing.iter().all(|k| l.end + j <= k.end) {
                    continue;
                }
                let mut input = Vec::with_capacity(bytes.len() + j);
                input.extend_from_slice(&bytes[..b]);
                input.extend_from_slice(junk);
                input.extend_from_slice(&bytes[b..]);
                let cfg = Cfg::strict().with_buffered(&set);
                let dsc = || format!("doc=[{}] bytes={} junk={} inserted at {} buffered=[{:x}]", docs::doc_short(rs, doc), hex(bytes), hex(junk), b, id);
                if !ctx.enter(&dsc) {
                    continue;
                }
                ctx.nontrivial();
                let want_before = crate::c12::rollup_expect(&flat[..fi - deferred], &set);
                let shifted: Vec<(NItem, usize)> = flat[fi - deferred..].iter().map(|(it, o)| (it.clone(), if *o >= b { *o + j } else { *o })).collect();
                let want_after = crate::c12::rollup_expect(&shifted, &set);
                if want_after.iter().any(|x| matches!(x.0, NItem::Full(..))) {
                    ctx.count("buffered_master_after_the_junk", 1);
                }
                if want_before.last().map(|x| matches!(x.0, NItem::Full(..))).unwrap_or(false) {
                    ctx.count("junk_directly_behind_a_buffered_master", 1);
                }
                match run_with_recovery(&input, &cfg) {
                    Err((k, det)) => ctx.violation(&format!("buffered/{}", k), &dsc, &det),
                    Ok(r) => {
                        ctx.transitions += r.calls;
                        let bad = if r.before != want_before {
                            Some("buffered/items-before-the-junk-differ")
                        } else if r.errors.len() != 1 || r.recover.is_err() || r.tail != "None" {
                            Some("buffered/not-exactly-one-error-and-a-successful-recovery")
                        } else if r.after != want_after {
                            Some("buffered/items-after-recovery-differ-from-undamaged-document")
                        } else {
                            None
                        };
                        if let Some(k) = bad {
                            ctx.violation(k, &dsc, &format!("expected before [{}] after [{}] | input={} | before [{}] errors {:?} recover {:?} after [{}] tail {}", want_before.iter().map(|(i, o)| format!("{}@{}", i.short(), o)).collect::<Vec<_>>().join(" "), want_after.iter().map(|(i, o)| format!("{}@{}", i.short(), o)).collect::<Vec<_>>().join(" "), hex(&input), r.before.iter().map(|(i, o)| format!("{}@{}", i.short(), o)).collect::<Vec<_>>().join(" "), r.errors.iter().map(|e| e.short()).collect::<Vec<_>>(), r.recover.as_ref().map_err(|e| e.short()), r.after.iter().map(|(i, o)| format!("{}@{}", i.short(), o)).collect::<Vec<_>>().join(" "), r.tail));
                        }
                    }
                }
                ctx.validated += 1;
                ctx.leave();
            }
        }
    }
}

/// Long runs of junk (16-40 bytes, zeros and mixed) delivered by a source whose reads end at, just before and just
/// after the junk's first and last byte: the recovery scan crosses a refill exactly there.
fn chunked_variants(ctx: &mut Ctx, rs: &RefSpec, doc: &Vec<crate::refmodel::Node>, bytes: &[u8], lay: &[Lay], flat: &[(NItem, usize)], flat_ex: &[(NItem, usize, usize)]) {
    if gen::count_nodes(doc) > 3 {
        return;
    }
    let mut junks: Vec<Vec<u8>> = Vec::new();
    for len in [16usize, 17, 24, 40] {
        junks.push(vec![0u8; len]);
        junks.push((0..len).map(|i| [0x05u8, 0x00, 0x02, 0x0f][i % 4]).collect());
        let mut z = vec![0x02u8; 3];
        z.extend(std::iter::repeat(0u8).take(len - 3));
        junks.push(z);
    }
    for (li, l) in lay.iter().enumerate() {
        let b = l.tag_start;
        let enclosing: Vec<&Lay> = lay.iter().filter(|k| k.is_master && k.data_start <= b && b < k.end).collect();
        let mut seen = 0;
        let mut fi = 0;
        for (k, (it, _)) in flat.iter().enumerate() {
            if !it.is_end() {
                if seen == li {
                    fi = k;
                    break;
                }
                seen += 1;
            }
        }
        let mut deferred = 0;
        while deferred < fi && flat_ex[fi - 1 - deferred].0.is_end() && lay[flat_ex[fi - 1 - deferred].2].unknown {
            deferred += 1;
        }
        for junk in &junks {
            let j = junk.len();
            if !enclosing.iter().all(|k| l.end + j <= k.end) {
                continue;
            }
            let mut input = Vec::with_capacity(bytes.len() + j);
            input.extend_from_slice(&bytes[..b]);
            input.extend_from_slice(junk);
            input.extend_from_slice(&bytes[b..]);
            let want_before = &flat[..fi - deferred];
            let want_after: Vec<(NItem, usize)> = flat[fi - deferred..].iter().map(|(it, o)| (it.clone(), if *o >= b { *o + j } else { *o })).collect();
            // read boundaries: around the start and the end of the junk; two-part and three-part schedules, and 1-byte reads
            let mut schedules: Vec<Vec<Step>> = vec![vec![Step::Max(1); input.len() + 2]];
            for first in [b.max(1), b + 1, b + j - 1, b + j, b + j + 1] {
                if first < input.len() {
                    schedules.push(vec![Step::Max(first)]);
                }
            }
            if b > 0 {
                schedules.push(vec![Step::Max(b), Step::Max(j)]);
                schedules.push(vec![Step::Max(b), Step::Max(j - 1), Step::Max(1)]);
            }
            schedules.push(vec![Step::Max(b + 8), Step::Max(j - 8)]);
            for cap in [None, Some(16usize), Some(64)] {
                for steps in &schedules {
                    let cfg = Cfg::strict().with_cap(cap);
                    let d = || format!("doc=[{}] bytes={} junk={} inserted at {} cap={:?} read schedule {:?}", docs::doc_short(rs, doc), hex(bytes), hex(junk), b, cap, &steps[..steps.len().min(4)]);
                    if !ctx.enter(&d) {
                        continue;
                    }
                    ctx.nontrivial();
                    ctx.count("long_junk_across_read_boundaries", 1);
                    match run_with_recovery_on(Script::new(&input, steps), input.len(), &cfg) {
                        Err((k, det)) => ctx.violation(&format!("chunked/{}", k), &d, &det),
                        Ok(r) => {
                            ctx.transitions += r.calls;
                            let bad = if r.before[..] != want_before[..] {
                                Some("chunked/items-before-the-junk-differ")
                            } else if r.errors.len() != 1 || r.recover.is_err() || r.tail != "None" {
                                Some("chunked/not-exactly-one-error-and-a-successful-recovery")
                            } else if r.after != want_after {
                                Some("chunked/items-after-recovery-differ-from-undamaged-document")
                            } else {
                                None
                            };
                            if let Some(k) = bad {
                                ctx.violation(k, &d, &format!("expected before [{}] after [{}] | input={} | before [{}] errors {:?} recover {:?} after [{}] tail {}", want_before.iter().map(|(i, o)| format!("{}@{}", i.short(), o)).collect::<Vec<_>>().join(" "), want_after.iter().map(|(i, o)| format!("{}@{}", i.short(), o)).collect::<Vec<_>>().join(" "), hex(&input), r.before.iter().map(|(i, o)| format!("{}@{}", i.short(), o)).collect::<Vec<_>>().join(" "), r.errors.iter().map(|e| e.short()).collect::<Vec<_>>(), r.recover.as_ref().map_err(|e| e.short()), r.after.iter().map(|(i, o)| format!("{}@{}", i.short(), o)).collect::<Vec<_>>().join(" "), r.tail));
                            }
                        }
                    }
                    ctx.validated += 1;
                    ctx.leave();
                }
            }
        }
    }
}

/// Documents in which the tag behind the junk is larger than the initial capacity (recovery has to accept a tag
/// whose payload is not in the buffer yet, and the buffer then grows for it).
fn grown_buffer_variants(ctx: &mut Ctx, rs: &RefSpec) {
    for (i, doc) in docs::grown_buffer_docs().into_iter().enumerate() {
        if !ctx.mine(i as u64) || docs::doc_has_raw(&doc) || gen::has_ambiguous_global_after_unknown(rs, &doc) {
            continue;
        }
        let (bytes, lay) = ref_encode(&doc);
        let flat = flatten(&doc, &lay);
        let flat_ex = flatten_ex(&doc, &lay);
        for (li, l) in lay.iter().enumerate() {
            let b = l.tag_start;
            let enclosing: Vec<&Lay> = lay.iter().filter(|k| k.is_master && !k.unknown && k.data_start <= b && b < k.end).collect();
            let mut seen = 0;
            let mut fi = 0;
            for (k, (it, _)) in flat.iter().enumerate() {
                if !it.is_end() {
                    if seen == li {
                        fi = k;
                        break;
                    }
                    seen += 1;
                }
            }
            let mut deferred = 0;
            while deferred < fi && flat_ex[fi - 1 - deferred].0.is_end() && lay[flat_ex[fi - 1 - deferred].2].unknown {
                deferred += 1;
            }
            for junk in [vec![0x00u8], vec![0x00, 0x02, 0x05], vec![0x0f; 9]] {
                let j = junk.len();
                if !enclosing.iter().all(|k| l.end + j <= k.end) {
                    continue;
                }
                let mut input = Vec::with_capacity(bytes.len() + j);
                input.extend_from_slice(&bytes[..b]);
                input.extend_from_slice(&junk);
                input.extend_from_slice(&bytes[b..]);
                let want_before = &flat[..fi - deferred];
                let want_after: Vec<(NItem, usize)> = flat[fi - deferred..].iter().map(|(it, o)| (it.clone(), if *o >= b { *o + j } else { *o })).collect();
                for cap in [Some(0usize), Some(16), Some(24), Some(40), None] {
                    let cfg = Cfg::strict().with_cap(cap);
                    let d = || format!("grown-buffer doc=[{}] bytes={} junk={} inserted at {} cap={:?}", docs::doc_short(rs, &doc), hex(&bytes), hex(&junk), b, cap);
                    if !ctx.enter(&d) {
                        continue;
                    }
                    ctx.nontrivial();
                    ctx.count("junk_in_front_of_a_tag_larger_than_the_buffer", 1);
                    match run_with_recovery(&input, &cfg) {
                        Err((k, det)) => ctx.violation(&format!("grown-buffer/{}", k), &d, &det),
                        Ok(r) => {
                            ctx.transitions += r.calls;
                            let bad = if r.before[..] != want_before[..] {
                                Some("grown-buffer/items-before-the-junk-differ")
                            } else if r.errors.len() != 1 || r.recover.is_err() || r.tail != "None" {
                                Some("grown-buffer/not-exactly-one-error-and-a-successful-recovery")
                            } else if r.after != want_after {
                                Some("grown-buffer/items-after-recovery-differ-from-undamaged-document")
                            } else {
                                None
                            };
                            if let Some(k) = bad {
                                ctx.violation(k, &d, &format!("input={} | before [{}] errors {:?} recover {:?} after [{}] tail {}", hex(&input), r.before.iter().map(|(i, o)| format!("{}@{}", i.short(), o)).collect::<Vec<_>>().join(" "), r.errors.iter().map(|e| e.short()).collect::<Vec<_>>(), r.recover.as_ref().map_err(|e| e.short()), r.after.iter().map(|(i, o)| format!("{}@{}", i.short(), o)).collect::<Vec<_>>().join(" "), r.tail));
                            }
                        }
                    }
                    ctx.validated += 1;
                    ctx.leave();
                }
            }
        }
    }
}

pub fn run(ctx: &mut Ctx) {
    let rs = v_refspec();
    crate::spec::assert_spec_matches::<V>(&rs);
    let max_junk = ctx.tier.pick(6, 10);
    let p = DocParams { max_nodes: ctx.tier.pick(5, 6), globals: vec![ID_TAG, ID_VOID], exclude: vec![], unknown_subsets: true, devs: 0, payload_classes: false, big_payloads: false, noncanonical: false, width_devs: false, extras: true, all_widths: false };
    ctx.meta("rule", "cases: (known-size document, tag boundary b (not the end), junk run, capacity); junk runs = every string up to length 3 over {00, 02, 05, 0f} (bytes that cannot begin any id of V whatever follows: zero byte, 7-, 6- and 5-byte markers) plus structured runs up to the length bound; inserted without adjusting any size field. Independent precondition: following tag's extent + junk length still inside every enclosing known-size master's declared range. If it holds: items before the junk == reference flatten prefix, exactly one error, try_recover() Ok, remaining items == undamaged flatten with offsets >= b shifted by the junk length, clean end. With one master id buffered (junk lengths 1, 2, 5; insertion points not inside, and not directly behind a still open, master of that id): the same with complete buffered masters as Full items before and after the junk. Documents of <= 3 elements additionally with junk runs of 16-40 bytes (zeros, mixed, zero-tailed) over a source whose reads end at / one before / one after the first and the last junk byte, and with 1-byte reads, capacities {default,16,64}. Documents with a 20-45-byte payload (larger than the initial capacity) with junk at every boundary, capacities {0,16,24,40,default}. Always: no panic, try_recover fails only with UnexpectedEOF/ReadError, offsets never move backwards across a recovery. Non-trivial: insertions inside >= 1 known-size master with the precondition true.");
    ctx.meta("bounds", &format!("documents <= {} elements (+ spines), every boundary, junk length <= {}, capacities {{default,16}}, tolerance {{none, oversized, hierarchy+oversized}}, size limit {{default, exactly the largest declared size}}", p.max_nodes, max_junk));
    ctx.meta("assumptions", "the unconditional clause for arbitrary byte streams and call histories is exercised by C05's history sweep");
    for c in ["unknown_size_ends_deferred_past_the_junk", "precondition_true_inside_known_master", "precondition_true_root_level", "precondition_false", "buffered_master_after_the_junk", "junk_directly_behind_a_buffered_master", "long_junk_across_read_boundaries", "junk_in_front_of_a_tag_larger_than_the_buffer", "insertions_under_a_tight_size_limit"] {
        ctx.expect_nonzero(c);
    }
    grown_buffer_variants(ctx, &rs);
    let junks = junk_runs(max_junk);
    docs::for_each_doc(ctx, &rs, &p, &mut |ctx, doc| {
        let (bytes, lay) = ref_encode(doc);
        if gen::has_ambiguous_global_after_unknown(&rs, doc) {
            return true;
        }
        let flat = flatten(doc, &lay);
        let flat_ex = flatten_ex(doc, &lay);
        // boundaries = tag starts (except 0: junk before the first tag leaves nothing "before", still a valid case)
        for (li, l) in lay.iter().enumerate() {
            let b = l.tag_start;
            // enclosing known-size masters of position b: data_start <= b < end
            let enclosing: Vec<&Lay> = lay.iter().filter(|k| k.is_master && k.data_start <= b && b < k.end).collect();
            // flatten index of the tag at b
            let mut seen = 0;
            let mut fi = 0;
            for (k, (it, _)) in flat.iter().enumerate() {
                if !it.is_end() {
                    if seen == li {
                        fi = k;
                        break;
                    }
                    seen += 1;
                }
            }
            for junk in &junks {
                let j = junk.len();
                let pre = enclosing.iter().all(|k| l.end + j <= k.end);
                let mut input = Vec::with_capacity(bytes.len() + j);
                input.extend_from_slice(&bytes[..b]);
                input.extend_from_slice(junk);
                input.extend_from_slice(&bytes[b..]);
                // a size limit that is exactly the largest size the document declares (the undamaged document reads
                // under it): recovery stretches the open masters by the junk length, past that limit
                let tight = lay.iter().map(|k| k.end - k.data_start).max().unwrap_or(0);
                for (cap, allow, tight_limit) in [(None, 0u8, false), (Some(16), 0, false), (None, crate::obs::ALLOW_OVERSIZED, false), (None, crate::obs::ALLOW_HIER | crate::obs::ALLOW_OVERSIZED, false), (None, 0, true)] {
                    // (tolerating oversized children / hierarchy problems changes nothing here: the junk bytes are not ids
                    // of the specification under any of these settings, and the document itself is valid)
                    if (allow != 0 || tight_limit) && junk.len() > 2 && junk.len() != 5 {
                        continue;
                    }
                    let mut cfg = Cfg::strict().with_cap(cap).with_allow(allow);
                    if tight_limit {
                        cfg.max_size = crate::obs::MaxSize::Limit(tight);
                        ctx.count("insertions_under_a_tight_size_limit", 1);
                    }
                    let d = || format!("doc=[{}] bytes={} junk={} inserted at {} cap={:?} allow={} max={:?} (precondition {})", docs::doc_short(&rs, doc), hex(&bytes), hex(junk), b, cap, allow, cfg.max_size, pre);
                    if !ctx.enter(&d) {
                        continue;
                    }
                    if pre {
                        if enclosing.is_empty() {
                            ctx.count("precondition_true_root_level", 1);
                        } else {
                            ctx.count("precondition_true_inside_known_master", 1);
                            ctx.nontrivial();
                        }
                    } else {
                        ctx.count("precondition_false", 1);
                    }
                    match run_with_recovery(&input, &cfg) {
                        Err((k, det)) => ctx.violation(&k, &d, &det),
                        Ok(r) => {
                            ctx.transitions += r.calls;
                            ctx.outcome(&(r.before.len(), r.after.len(), r.recover.is_ok(), pre));
                            // always-clauses
                            let mut bad: Option<(String, String)> = None;
                            if let Err(e) = &r.recover {
                                if !matches!(e, NErr::Eof { .. } | NErr::Read { .. }) {
                                    bad = Some(("try_recover/fails-with-other-than-eof-or-io".into(), e.short()));
                                }
                            }
                            let max_before = r.before.iter().filter(|x| !x.0.is_end()).map(|x| x.1).max().unwrap_or(0);
                            if let Some((it, off)) = r.after.iter().find(|x| !x.0.is_end() && x.1 < max_before) {
                                bad = Some(("try_recover/moved-backwards".into(), format!("{}@{} after recovery, but offset {} was already emitted", it.short(), off, max_before)));
                            }
                            if bad.is_none() && pre {
                                // Ends of unknown-size masters that the tag at b closes are emitted only once that tag has been read
                                let mut deferred = 0;
                                while deferred < fi && flat_ex[fi - 1 - deferred].0.is_end() && lay[flat_ex[fi - 1 - deferred].2].unknown {
                                    deferred += 1;
                                }
                                if deferred > 0 {
                                    ctx.count("unknown_size_ends_deferred_past_the_junk", 1);
                                }
                                let want_before = &flat[..fi - deferred];
                                let want_after: Vec<(NItem, usize)> = flat[fi - deferred..].iter().map(|(it, o)| (it.clone(), if *o >= b { *o + j } else { *o })).collect();
                                if r.before[..] != want_before[..] {
                                    bad = Some(("items-before-the-junk-differ".into(), format!("expected [{}]", want_before.iter().map(|(i, o)| format!("{}@{}", i.short(), o)).collect::<Vec<_>>().join(" "))));
                                } else if r.errors.is_empty() {
                                    bad = Some(("junk-not-reported".into(), String::new()));
                                } else if r.recover.is_err() {
                                    bad = Some(("try_recover/failed-although-a-valid-tag-follows".into(), format!("{:?}", r.recover)));
                                } else if r.errors.len() != 1 || r.tail != "None" {
                                    bad = Some(("more-than-one-error".into(), format!("errors {:?} tail {}", r.errors.iter().map(|e| e.short()).collect::<Vec<_>>(), r.tail)));
                                } else if r.after != want_after {
                                    bad = Some(("items-after-recovery-differ-from-undamaged-document".into(), format!("expected [{}]", want_after.iter().map(|(i, o)| format!("{}@{}", i.short(), o)).collect::<Vec<_>>().join(" "))));
                                }
                            }
                            if let Some((k, det)) = bad {
                                ctx.violation(&k, &d, &format!("{} | input={} | before [{}] errors {:?} recover {:?} after [{}] tail {}", det, hex(&input), r.before.iter().map(|(i, o)| format!("{}@{}", i.short(), o)).collect::<Vec<_>>().join(" "), r.errors.iter().map(|e| e.short()).collect::<Vec<_>>(), r.recover.as_ref().map_err(|e| e.short()), r.after.iter().map(|(i, o)| format!("{}@{}", i.short(), o)).collect::<Vec<_>>().join(" "), r.tail));
                            }
                        }
                    }
                    ctx.validated += 1;
                    ctx.leave();
                }
            }
        }
        buffered_variants(ctx, &rs, doc, &bytes, &lay, &flat, &flat_ex, &junks);
        chunked_variants(ctx, &rs, doc, &bytes, &lay, &flat, &flat_ex);
        !ctx.should_stop()
    });
}
