#![allow(dead_code, unused_imports, unused_variables)]
//! Stand-alone driver of C18. It deliberately does not include the harness's own macro-derived
//! specifications (spec.rs): a change to the derive macros that stops THOSE from compiling must still be
//! reported by C18 as a violation instead of taking the whole machinery down with a build failure.
mod c18;
mod ctx;
mod decls;

use ctx::{Ctx, Mode, Tier};

thread_local! {
    static LAST_PANIC: std::cell::RefCell<String> = const { std::cell::RefCell::new(String::new()) };
}

fn usage() -> ! {
    eprintln!("usage: verif18 C18 <quick|thorough> | verif18 gen-c18 <tier> | verif18 worker C18 <tier> <i>/<n> [--careful <from> | --only <idx>]");
    std::process::exit(2);
}

fn main() {
    let args: Vec<String> = std::env::args().collect();
    if args.len() < 3 {
        usage();
    }
    if args[1] == "gen-c18" {
        if let Err(e) = c18::generate(args[2] == "quick") {
            eprintln!("gen-c18 failed: {}", e);
            std::process::exit(2);
        }
        return;
    }
    if args[1] == "worker" {
        if args.len() < 5 || args[2] != "C18" {
            usage();
        }
        let tier = Tier::parse(&args[3]);
        let (s, n) = args[4].split_once('/').unwrap_or_else(|| usage());
        let mut mode = Mode::Normal;
        if args.len() >= 7 {
            match args[5].as_str() {
                "--careful" => mode = Mode::Careful(args[6].parse().unwrap()),
                "--only" => mode = Mode::Only(args[6].parse().unwrap()),
                _ => usage(),
            }
        }
        std::panic::set_hook(Box::new(|info| {
            LAST_PANIC.with(|l| *l.borrow_mut() = format!("{}", info));
        }));
        ctx::start_watchdog(120);
        let r = std::panic::catch_unwind(std::panic::AssertUnwindSafe(|| {
            let mut c = Ctx::new("C18", tier, s.parse().unwrap(), n.parse().unwrap(), mode);
            c18::run(&mut c);
            c.finish();
        }));
        if r.is_err() {
            let m = LAST_PANIC.with(|l| l.borrow().clone());
            println!("MACHINERY {}", ctx::one_line(&m));
            std::process::exit(2);
        }
        return;
    }
    if args[1] != "C18" {
        usage();
    }
    std::process::exit(ctx::supervise("C18", Tier::parse(&args[2])));
}
