//! Trusted base: reference codec, document trees, reference encoder, ground-truth flattening.
//! Nothing in this file calls into the library under test.

use crate::spec::{RefSpec, Ty};

// ---------------------------------------------------------------------------------------------
// RefCodec

/// Length announced by the marker of the first byte (1..=8), or None for 0x00.
pub fn marker_len(b: u8) -> Option<usize> {
    if b == 0 {
        None
    } else {
        Some(b.leading_zeros() as usize + 1)
    }
}

/// Shortest VINT width able to hold `v` as a *value* (all-ones allowed; the codec property C15 talks about values).
pub fn vint_min_width(v: u64) -> Option<usize> {
    (1..=8).find(|w| (v as u128) < (1u128 << (7 * w)))
}

pub fn vint_encode(v: u64, width: usize) -> Option<Vec<u8>> {
    if !(1..=8).contains(&width) || (v as u128) >= (1u128 << (7 * width)) {
        return None;
    }
    let x: u128 = (v as u128) | (1u128 << (7 * width));
    let mut out = Vec::with_capacity(width);
    for i in (0..width).rev() {
        out.push(((x >> (8 * i)) & 0xff) as u8);
    }
    Some(out)
}

#[derive(Debug, PartialEq, Eq, Clone, Copy)]
pub enum VintDec {
    Ok(u64, usize),
    NeedMore,
    Invalid,
}

pub fn vint_decode(buf: &[u8]) -> VintDec {
    if buf.is_empty() {
        return VintDec::NeedMore;
    }
    let Some(len) = marker_len(buf[0]) else { return VintDec::Invalid };
    if len > buf.len() {
        return VintDec::NeedMore;
    }
    let mut x: u128 = 0;
    for b in &buf[..len] {
        x = (x << 8) | (*b as u128);
    }
    x -= 1u128 << (7 * len);
    VintDec::Ok(x as u64, len)
}

pub fn svint_decode(buf: &[u8]) -> Option<(i64, usize)> {
    match vint_decode(buf) {
        VintDec::Ok(v, len) => {
            let bits = 7 * len;
            let v = v as i128;
            let val = if v >= (1i128 << (bits - 1)) { v - (1i128 << bits) } else { v };
            Some((val as i64, len))
        }
        _ => None,
    }
}

/// id bytes of an id value (the id *includes* its marker): big-endian without leading zero bytes.
pub fn id_bytes(id: u64) -> Vec<u8> {
    id.to_be_bytes().iter().copied().skip_while(|b| *b == 0).collect()
}

/// Is `id` a well-formed element id value (byte length == marker length)?
pub fn id_well_formed(id: u64) -> bool {
    let b = id_bytes(id);
    !b.is_empty() && marker_len(b[0]) == Some(b.len())
}

/// Decode an id at the start of buf: (id value incl. marker, length). 0x00 → None (invalid).
pub fn id_decode(buf: &[u8]) -> VintDec {
    if buf.is_empty() {
        return VintDec::NeedMore;
    }
    let Some(len) = marker_len(buf[0]) else { return VintDec::Invalid };
    if len > buf.len() {
        return VintDec::NeedMore;
    }
    let mut x: u64 = 0;
    for b in &buf[..len] {
        x = (x << 8) | (*b as u64);
    }
    VintDec::Ok(x, len)
}

pub fn be_u64(b: &[u8]) -> Option<u64> {
    if b.len() > 8 {
        return None;
    }
    let mut v: u128 = 0;
    for x in b {
        v = (v << 8) | *x as u128;
    }
    Some(v as u64)
}

pub fn be_i64(b: &[u8]) -> Option<i64> {
    if b.len() > 8 {
        return None;
    }
    if b.is_empty() {
        return Some(0);
    }
    let mut v: i128 = if b[0] & 0x80 != 0 { -1 } else { 0 };
    for x in b {
        v = (v << 8) | *x as i128;
    }
    Some(v as i64)
}

/// float as bits of the f64 the payload denotes
pub fn be_f64_bits(b: &[u8]) -> Option<u64> {
    match b.len() {
        4 => Some((f32::from_be_bytes([b[0], b[1], b[2], b[3]]) as f64).to_bits()),
        8 => Some(u64::from_be_bytes([b[0], b[1], b[2], b[3], b[4], b[5], b[6], b[7]])),
        _ => None,
    }
}

pub fn min_uint_bytes(v: u64) -> Vec<u8> {
    if v <= 0xff {
        vec![v as u8]
    } else if v <= 0xffff {
        (v as u16).to_be_bytes().to_vec()
    } else if v <= 0xffff_ffff {
        (v as u32).to_be_bytes().to_vec()
    } else {
        v.to_be_bytes().to_vec()
    }
}

pub fn min_int_bytes(v: i64) -> Vec<u8> {
    if v >= -128 && v <= 127 {
        vec![v as i8 as u8]
    } else if v >= -32768 && v <= 32767 {
        (v as i16).to_be_bytes().to_vec()
    } else if v >= -(1i64 << 31) && v < (1i64 << 31) {
        (v as i32).to_be_bytes().to_vec()
    } else {
        v.to_be_bytes().to_vec()
    }
}

// ---------------------------------------------------------------------------------------------
// Values and normalised items

#[derive(Clone, Debug, PartialEq, Eq, Hash)]
pub enum Val {
    U(u64),
    I(i64),
    F(u64), // bits
    S(String),
    B(Vec<u8>),
}

impl Val {
    pub fn ty(&self) -> Ty {
        match self {
            Val::U(_) => Ty::U,
            Val::I(_) => Ty::I,
            Val::F(_) => Ty::F,
            Val::S(_) => Ty::S,
            Val::B(_) => Ty::B,
        }
    }
    /// Canonical payload bytes (what the property says the writer emits: minimal 1/2/4/8 ints, 8-byte floats).
    pub fn canonical_bytes(&self) -> Vec<u8> {
        match self {
            Val::U(v) => min_uint_bytes(*v),
            Val::I(v) => min_int_bytes(*v),
            Val::F(b) => b.to_be_bytes().to_vec(),
            Val::S(s) => s.as_bytes().to_vec(),
            Val::B(b) => b.clone(),
        }
    }
    /// Documented decoding of payload bytes for an element of type `ty`. Err(()) = not decodable.
    pub fn decode(ty: Ty, b: &[u8]) -> Result<Val, ()> {
        match ty {
            Ty::U => be_u64(b).map(Val::U).ok_or(()),
            Ty::I => be_i64(b).map(Val::I).ok_or(()),
            Ty::F => be_f64_bits(b).map(Val::F).ok_or(()),
            Ty::S => std::str::from_utf8(b).map(|s| Val::S(s.to_string())).map_err(|_| ()),
            Ty::B => Ok(Val::B(b.to_vec())),
            Ty::Master => Err(()),
        }
    }
}

/// Normalised view of an item emitted by / given to the library.
#[derive(Clone, Debug, PartialEq, Eq, Hash)]
pub enum NItem {
    Start(u64),
    End(u64),
    Full(u64, Vec<NItem>),
    Leaf(u64, Val),
    Raw(u64, Vec<u8>),
}

impl NItem {
    pub fn id(&self) -> u64 {
        match self {
            NItem::Start(i) | NItem::End(i) | NItem::Full(i, _) | NItem::Leaf(i, _) | NItem::Raw(i, _) => *i,
        }
    }
    pub fn is_end(&self) -> bool {
        matches!(self, NItem::End(_))
    }
    /// Replace each Full by Start, children (recursively), End.
    pub fn unroll_into(&self, out: &mut Vec<NItem>) {
        match self {
            NItem::Full(id, ch) => {
                out.push(NItem::Start(*id));
                for c in ch {
                    c.unroll_into(out);
                }
                out.push(NItem::End(*id));
            }
            x => out.push(x.clone()),
        }
    }
    pub fn short(&self) -> String {
        match self {
            NItem::Start(i) => format!("S{:x}", i),
            NItem::End(i) => format!("E{:x}", i),
            NItem::Full(i, ch) => format!("F{:x}[{}]", i, ch.iter().map(|c| c.short()).collect::<Vec<_>>().join(" ")),
            NItem::Leaf(i, v) => format!("{:x}={}", i, val_short(v)),
            NItem::Raw(i, b) => format!("raw{:x}={}", i, hex(b)),
        }
    }
}

pub fn val_short(v: &Val) -> String {
    match v {
        Val::U(x) => format!("u{}", x),
        Val::I(x) => format!("i{}", x),
        Val::F(x) => format!("f{:016x}", x),
        Val::S(s) => {
            if s.len() > 12 {
                format!("s<{}B>", s.len())
            } else {
                format!("s{:?}", s)
            }
        }
        Val::B(b) => {
            if b.len() > 12 {
                format!("b<{}B>", b.len())
            } else {
                format!("b{}", hex(b))
            }
        }
    }
}

pub fn hex(b: &[u8]) -> String {
    if b.len() > 64 {
        let mut s: String = b[..24].iter().map(|x| format!("{:02x}", x)).collect();
        s.push_str(&format!("..<{}B>..", b.len()));
        s.extend(b[b.len() - 8..].iter().map(|x| format!("{:02x}", x)));
        s
    } else {
        b.iter().map(|x| format!("{:02x}", x)).collect()
    }
}

pub fn unroll(items: &[NItem]) -> Vec<NItem> {
    let mut out = Vec::new();
    for i in items {
        i.unroll_into(&mut out);
    }
    out
}

// ---------------------------------------------------------------------------------------------
// Document trees and the reference encoder

#[derive(Clone, Copy, Debug, PartialEq, Eq, Hash)]
pub enum SizeEnc {
    /// shortest width that is not the reserved all-ones pattern
    Min,
    /// exactly this width (caller guarantees it fits)
    Width(u8),
    /// unknown size, all-ones, this width (masters only)
    Unknown(u8),
}

#[derive(Clone, Debug, PartialEq, Eq, Hash)]
pub enum Kind {
    Master(Vec<Node>),
    /// `raw`: payload bytes as they appear in the stream (may be a non-canonical encoding of `val`)
    Leaf { val: Val, raw: Vec<u8> },
    /// element whose id is not in the specification
    RawLeaf(Vec<u8>),
}

#[derive(Clone, Debug, PartialEq, Eq, Hash)]
pub struct Node {
    pub id: u64,
    pub kind: Kind,
    pub size: SizeEnc,
}

impl Node {
    pub fn leaf(id: u64, val: Val) -> Node {
        let raw = val.canonical_bytes();
        Node { id, kind: Kind::Leaf { val, raw }, size: SizeEnc::Min }
    }
    /// leaf given by raw payload bytes; value is the documented decoding (panics if undecodable: machinery error)
    pub fn leaf_raw(id: u64, ty: Ty, raw: Vec<u8>) -> Node {
        let val = Val::decode(ty, &raw).expect("machinery: leaf_raw with undecodable payload");
        Node { id, kind: Kind::Leaf { val, raw }, size: SizeEnc::Min }
    }
    pub fn master(id: u64, children: Vec<Node>) -> Node {
        Node { id, kind: Kind::Master(children), size: SizeEnc::Min }
    }
    pub fn is_master(&self) -> bool {
        matches!(self.kind, Kind::Master(_))
    }
    pub fn count(&self) -> usize {
        match &self.kind {
            Kind::Master(ch) => 1 + ch.iter().map(|c| c.count()).sum::<usize>(),
            _ => 1,
        }
    }
    pub fn masters_count(&self) -> usize {
        match &self.kind {
            Kind::Master(ch) => 1 + ch.iter().map(|c| c.masters_count()).sum::<usize>(),
            _ => 0,
        }
    }
    pub fn short(&self, rs: &RefSpec) -> String {
        let sz = match self.size {
            SizeEnc::Min => String::new(),
            SizeEnc::Width(w) => format!("/w{}", w),
            SizeEnc::Unknown(w) => format!("/unk{}", w),
        };
        match &self.kind {
            Kind::Master(ch) => format!("{}{}[{}]", rs.name(self.id), sz, ch.iter().map(|c| c.short(rs)).collect::<Vec<_>>().join(" ")),
            Kind::Leaf { val, raw } => {
                if *raw == val.canonical_bytes() {
                    format!("{}{}={}", rs.name(self.id), sz, val_short(val))
                } else {
                    format!("{}{}={}~{}", rs.name(self.id), sz, val_short(val), hex(raw))
                }
            }
            Kind::RawLeaf(b) => format!("raw{:x}{}={}", self.id, sz, hex(b)),
        }
    }
}

#[derive(Clone, Debug, PartialEq, Eq)]
pub struct Lay {
    pub id: u64,
    pub tag_start: usize,
    pub data_start: usize,
    /// end of the element's content (for unknown-size masters: where its last descendant ends)
    pub end: usize,
    pub depth: usize,
    pub is_master: bool,
    pub unknown: bool,
}

/// shortest size width whose value is not the reserved all-ones pattern of that width
pub fn min_size_width(size: u64) -> usize {
    (1..=8).find(|w| (size as u128) < (1u128 << (7 * w)) - 1).expect("machinery: size too large")
}

pub fn size_field(size: u64, enc: SizeEnc) -> Vec<u8> {
    match enc {
        SizeEnc::Min => vint_encode(size, min_size_width(size)).unwrap(),
        SizeEnc::Width(w) => vint_encode(size, w as usize).expect("machinery: size does not fit requested width"),
        SizeEnc::Unknown(w) => vint_encode((1u64 << (7 * w as u32)) - 1, w as usize).unwrap(),
    }
}

fn enc_node(n: &Node, base: usize, depth: usize, out: &mut Vec<u8>, lay: &mut Vec<Lay>) {
    let tag_start = base + out.len();
    out.extend(id_bytes(n.id));
    match &n.kind {
        Kind::Leaf { raw, .. } | Kind::RawLeaf(raw) => {
            out.extend(size_field(raw.len() as u64, n.size));
            let data_start = base + out.len();
            out.extend_from_slice(raw);
            lay.push(Lay { id: n.id, tag_start, data_start, end: base + out.len(), depth, is_master: false, unknown: false });
        }
        Kind::Master(ch) => {
            // encode the children first into a scratch buffer to learn the size
            let idx = lay.len();
            lay.push(Lay { id: n.id, tag_start, data_start: 0, end: 0, depth, is_master: true, unknown: matches!(n.size, SizeEnc::Unknown(_)) });
            let mut body = Vec::new();
            let mut sub = Vec::new();
            for c in ch {
                enc_node(c, 0, depth + 1, &mut body, &mut sub);
            }
            out.extend(size_field(body.len() as u64, n.size));
            let data_start = base + out.len();
            for mut l in sub {
                l.tag_start += data_start;
                l.data_start += data_start;
                l.end += data_start;
                lay.push(l);
            }
            out.extend(body);
            lay[idx].data_start = data_start;
            lay[idx].end = base + out.len();
        }
    }
}

/// can the reference encoder encode this document (every explicit width able to hold its size)?
pub fn encodable(doc: &[Node]) -> bool {
    fn rec(n: &Node) -> Option<usize> {
        let body = match &n.kind {
            Kind::Leaf { raw, .. } | Kind::RawLeaf(raw) => raw.len(),
            Kind::Master(ch) => {
                let mut t = 0;
                for c in ch {
                    t += rec(c)?;
                }
                t
            }
        };
        let w = match n.size {
            SizeEnc::Min => min_size_width(body as u64),
            SizeEnc::Width(w) => {
                if (body as u128) >= (1u128 << (7 * w as u32)) - 1 {
                    return None;
                }
                w as usize
            }
            SizeEnc::Unknown(w) => w as usize,
        };
        Some(id_bytes(n.id).len() + w + body)
    }
    doc.iter().all(|n| rec(n).is_some())
}

/// bytes + layout (DFS order, one entry per node)
pub fn ref_encode(doc: &[Node]) -> (Vec<u8>, Vec<Lay>) {
    let mut out = Vec::new();
    let mut lay = Vec::new();
    for n in doc {
        enc_node(n, 0, 0, &mut out, &mut lay);
    }
    (out, lay)
}

fn flat_node(n: &Node, lay: &[Lay], li: &mut usize, out: &mut Vec<(NItem, usize)>) {
    let l = &lay[*li];
    *li += 1;
    match &n.kind {
        Kind::Leaf { val, .. } => out.push((NItem::Leaf(n.id, val.clone()), l.tag_start)),
        Kind::RawLeaf(b) => out.push((NItem::Raw(n.id, b.clone()), l.tag_start)),
        Kind::Master(ch) => {
            let ts = l.tag_start;
            out.push((NItem::Start(n.id), ts));
            for c in ch {
                flat_node(c, lay, li, out);
            }
            out.push((NItem::End(n.id), ts));
        }
    }
}

/// ground truth item list with offsets
pub fn flatten(doc: &[Node], lay: &[Lay]) -> Vec<(NItem, usize)> {
    let mut out = Vec::new();
    let mut li = 0;
    for n in doc {
        flat_node(n, lay, &mut li, &mut out);
    }
    out
}

/// like `flatten`, with the layout index of the node each item belongs to
pub fn flatten_ex(doc: &[Node], lay: &[Lay]) -> Vec<(NItem, usize, usize)> {
    fn rec(nodes: &[Node], lay: &[Lay], li: &mut usize, out: &mut Vec<(NItem, usize, usize)>) {
        for n in nodes {
            let my = *li;
            *li += 1;
            let ts = lay[my].tag_start;
            match &n.kind {
                Kind::Leaf { val, .. } => out.push((NItem::Leaf(n.id, val.clone()), ts, my)),
                Kind::RawLeaf(b) => out.push((NItem::Raw(n.id, b.clone()), ts, my)),
                Kind::Master(ch) => {
                    out.push((NItem::Start(n.id), ts, my));
                    rec(ch, lay, li, out);
                    out.push((NItem::End(n.id), ts, my));
                }
            }
        }
    }
    let mut out = Vec::new();
    let mut li = 0;
    rec(doc, lay, &mut li, &mut out);
    out
}

pub fn flatten_items(doc: &[Node]) -> Vec<NItem> {
    fn rec(nodes: &[Node], out: &mut Vec<NItem>) {
        for n in nodes {
            match &n.kind {
                Kind::Leaf { val, .. } => out.push(NItem::Leaf(n.id, val.clone())),
                Kind::RawLeaf(b) => out.push(NItem::Raw(n.id, b.clone())),
                Kind::Master(ch) => {
                    out.push(NItem::Start(n.id));
                    rec(ch, out);
                    out.push(NItem::End(n.id));
                }
            }
        }
    }
    let mut out = Vec::new();
    rec(doc, &mut out);
    out
}

/// depth-first visit of all nodes (mutable), used to apply encodings
pub fn visit_mut<'a>(doc: &'a mut [Node], f: &mut dyn FnMut(&mut Node)) {
    for n in doc.iter_mut() {
        f(n);
        if let Kind::Master(ch) = &mut n.kind {
            visit_mut(ch, f);
        }
    }
}

pub fn visit<'a>(doc: &'a [Node], f: &mut dyn FnMut(&Node, usize), depth: usize) {
    for n in doc.iter() {
        f(n, depth);
        if let Kind::Master(ch) = &n.kind {
            visit(ch, f, depth + 1);
        }
    }
}

/// header decoded independently at an offset of the input
#[derive(Debug, Clone, PartialEq, Eq)]
pub struct Hdr {
    pub id: u64,
    pub id_len: usize,
    pub size: Option<u64>, // None = unknown (all-ones)
    pub size_len: usize,
}

pub fn decode_header(buf: &[u8]) -> Option<Hdr> {
    decode_header_opt(buf, false)
}

/// `zero_id`: accept a 0x00 byte as the one-byte malformed id 0 (what the tolerant reader is documented to do:
/// "assume any incoming tag id is valid")
pub fn decode_header_opt(buf: &[u8], zero_id: bool) -> Option<Hdr> {
    let (id, id_len) = match id_decode(buf) {
        VintDec::Ok(id, l) => (id, l),
        VintDec::Invalid if zero_id => (0, 1),
        _ => return None,
    };
    let VintDec::Ok(sz, size_len) = vint_decode(&buf[id_len..]) else { return None };
    let unknown = (sz as u128) == (1u128 << (7 * size_len)) - 1;
    Some(Hdr { id, id_len, size: if unknown { None } else { Some(sz) }, size_len })
}

#[cfg(test)]
mod tests {
    use super::*;
    #[test]
    fn codec_basics() {
        assert_eq!(vint_encode(127, 1), Some(vec![0xff]));
        assert_eq!(vint_encode(128, 1), None);
        assert_eq!(vint_encode(127, 2), Some(vec![0x40, 0x7f]));
        assert_eq!(vint_decode(&[0x40, 0x7f]), VintDec::Ok(127, 2));
        assert_eq!(vint_decode(&[0x40]), VintDec::NeedMore);
        assert_eq!(vint_decode(&[0x00, 1]), VintDec::Invalid);
        assert_eq!(min_size_width(126), 1);
        assert_eq!(min_size_width(127), 2);
        assert_eq!(min_size_width(16382), 2);
        assert_eq!(min_size_width(16383), 3);
        assert_eq!(be_i64(&[0xff]), Some(-1));
        assert_eq!(be_i64(&[0x00, 0xff]), Some(255));
        assert_eq!(be_i64(&[0x80, 0, 0, 0, 0, 0, 0, 0]), Some(i64::MIN));
        assert_eq!(svint_decode(&[0xdf]), Some((-33, 1)));
        assert_eq!(svint_decode(&[0x40, 0xc8]), Some((200, 2)));
        assert_eq!(svint_decode(&[0x7f, 0x38]), Some((-200, 2)));
        assert!(id_well_formed(0x81) && id_well_formed(0x4087) && id_well_formed(0x1a45dfa3) && id_well_formed(0x0100000000000002));
        assert!(!id_well_formed(1) && !id_well_formed(0x8000000000000000) && !id_well_formed(0x100) && !id_well_formed(0));
    }
}
