//! C10 — the writer streams: flushed bytes are final, and complete whenever no sized master is open.

use ebml_iterable::TagWriter;

use crate::ctx::Ctx;
use crate::obs::{apply_call, parse_slice, Cfg, Dest, WCall, WErr, WOpt, ALLOW_IDS};
use crate::refmodel::{hex, NItem, Val};
use crate::spec::*;

/// Reference model of the writer's open chain and of the tags accepted so far.
#[derive(Clone, Default)]
pub struct WModel {
    /// (id, known-size?)
    pub open: Vec<(u64, bool)>,
    /// ids of open masters that were started with an explicit size width (their End, and therefore flush /
    /// into_inner, may legitimately fail with TagSizeError when the content does not fit)
    pub explicit_width_open: Vec<u64>,
    pub accepted: Vec<NItem>,
    /// an unknown-size master was ended explicitly and nothing that closes it on read-back followed yet
    pub pending_unknown_close: bool,
    /// an element that never closes an unknown-size master (unknown id / global) was written right after such
    /// an End: the byte stream cannot express where the master ended (inherent to EBML), read-back is not compared
    pub ambiguous: bool,
}

impl WModel {
    pub fn any_known_open(&self) -> bool {
        self.open.iter().any(|o| o.1)
    }
    /// update after the real writer accepted `c`
    pub fn apply(&mut self, c: &WCall) {
        match c {
            WCall::Tag(t, opt) => match t {
                NItem::Start(id) => {
                    self.pending_unknown_close = false;
                    if matches!(opt, WOpt::Width(_)) {
                        self.explicit_width_open.push(*id);
                    }
                    self.open.push((*id, !matches!(opt, WOpt::Unknown | WOpt::UnknownDeprecated)));
                    self.accepted.push(t.clone());
                }
                NItem::End(id) => {
                    if let Some(k) = self.explicit_width_open.iter().rposition(|x| x == id) {
                        self.explicit_width_open.remove(k);
                    }
                    let known = self.open.pop().map(|o| o.1).unwrap_or(true);
                    self.pending_unknown_close = if known { false } else { true };
                    self.accepted.push(t.clone());
                }
                NItem::Raw(..) => {
                    if self.pending_unknown_close {
                        self.ambiguous = true;
                    }
                    self.accepted.push(t.clone());
                }
                other => {
                    self.pending_unknown_close = false;
                    self.accepted.push(other.clone());
                }
            },
            WCall::Raw(id, b) => {
                if self.pending_unknown_close {
                    self.ambiguous = true;
                }
                self.accepted.push(NItem::Raw(*id, b.clone()))
            }
            WCall::Flush => {
                while let Some((id, known)) = self.open.pop() {
                    self.pending_unknown_close = !known;
                    self.accepted.push(NItem::End(id));
                }
                self.explicit_width_open.clear();
            }
        }
    }
    /// what a strict read of everything handed over must yield: the accepted tags, then the Ends that the
    /// end of input supplies for masters still open (innermost first)
    pub fn expected_read(&self) -> Vec<NItem> {
        let mut v = crate::refmodel::unroll(&self.accepted);
        for (id, _) in self.open.iter().rev() {
            v.push(NItem::End(*id));
        }
        v
    }
}

pub fn alphabet(thorough: bool) -> Vec<WCall> {
    let t = |i: NItem, o: WOpt| WCall::Tag(i, o);
    let mut a = vec![
        t(NItem::Start(ID_ROOT), WOpt::Default),
        t(NItem::Start(ID_M), WOpt::Default),
        t(NItem::Start(ID_N), WOpt::Default),
        t(NItem::Start(ID_ROOT), WOpt::Unknown),
        t(NItem::Start(ID_M), WOpt::Unknown),
        t(NItem::Start(ID_N), WOpt::UnknownDeprecated),
        t(NItem::Start(ID_M), WOpt::Width(2)),
        t(NItem::End(ID_ROOT), WOpt::Default),
        t(NItem::End(ID_M), WOpt::Default),
        t(NItem::End(ID_N), WOpt::Unknown),
        t(NItem::Leaf(ID_U, Val::U(1)), WOpt::Default),
        t(NItem::Leaf(ID_MU, Val::U(300)), WOpt::Width(2)),
        t(NItem::Leaf(ID_NU, Val::U(7)), WOpt::Default),
        t(NItem::Full(ID_M, vec![NItem::Leaf(ID_MU, Val::U(2))]), WOpt::Default),
        t(NItem::Full(ID_M, vec![NItem::Leaf(ID_MU, Val::U(3)), NItem::Full(ID_N, vec![NItem::Leaf(ID_NU, Val::U(4))])]), WOpt::Width(3)),
        WCall::Raw(0xf2, vec![1, 2]),
        WCall::Flush,
    ];
    if thorough {
        a.push(t(NItem::Start(ID_ROOT), WOpt::Width(1)));
        a.push(t(NItem::Full(ID_N, vec![NItem::Full(ID_K, vec![NItem::Full(ID_L, vec![NItem::Leaf(ID_LB, Val::B(vec![0x3c; 107]))])])]), WOpt::Default));
        a.push(t(NItem::Start(ID_EBML), WOpt::Default));
        a.push(t(NItem::End(ID_EBML), WOpt::Default));
        a.push(t(NItem::Leaf(ID_S, Val::S("x".repeat(127))), WOpt::Default));
    }
    a
}

struct Explorer<'a> {
    alpha: &'a [WCall],
    depth: usize,
    rcfg: Cfg,
    /// running index of depth-2 nodes: the unit of sharding
    level1: std::cell::Cell<u64>,
    /// destination accepts at most this many bytes per write call (None: everything)
    dest_cap: Option<usize>,
    /// how many rejected calls a history may contain (a rejected call changes nothing in the model; the history goes on)
    max_rejected: usize,
}

impl<'a> Explorer<'a> {
    /// replay `hist` on a fresh writer (all calls were accepted before), returning writer and model
    fn replay(&self, hist: &[usize]) -> (TagWriter<Dest>, WModel) {
        let mut w = TagWriter::new(match self.dest_cap { Some(n) => Dest::capped(n), None => Dest::default() });
        let mut m = WModel::default();
        for i in hist {
            let c = &self.alpha[*i];
            if apply_call::<V>(&mut w, c).is_ok() {
                m.apply(c);
            }
        }
        (w, m)
    }

    fn explore(&self, ctx: &mut Ctx, hist: &mut Vec<usize>, rej: usize) {
        if hist.len() >= self.depth || ctx.should_stop() {
            return;
        }
        for ci in 0..self.alpha.len() {
            let c = &self.alpha[ci];
            // sharding: first calls are checked by shard 0 only (every shard walks through them), second calls
            // are dealt round-robin with their whole subtree
            let level = hist.len();
            let skip_check = match level {
                0 => ctx.shard != 0,
                1 => {
                    let k = self.level1.get();
                    self.level1.set(k + 1);
                    if !ctx.mine(k) {
                        continue;
                    }
                    false
                }
                _ => false,
            };
            if skip_check {
                self.extend_quietly(ctx, hist, ci, rej);
                continue;
            }
            let d = || format!("{}history [{}] then {}", match self.dest_cap { Some(n) => format!("destination accepting {} byte(s) per write; ", n), None => String::new() }, hist.iter().map(|i| self.alpha[*i].short()).collect::<Vec<_>>().join(", "), c.short());
            if !ctx.enter(&d) {
                // in replay modes still walk the tree so that indexes line up: decide acceptance quietly
                self.extend_quietly(ctx, hist, ci, rej);
                continue;
            }
            let (mut w, mut m) = self.replay(hist);
            let before: Vec<u8> = w.get_ref().data.clone();
            let known_open_before = m.any_known_open();
            let r = apply_call::<V>(&mut w, c);
            ctx.transitions += hist.len() as u64 + 1;
            let mut accepted = false;
            let mut rejected = false;
            match r {
                Err(WErr::Panic(p)) => ctx.violation("writer/panic", &d, &p),
                Err(_) => {
                    ctx.count(if rej < self.max_rejected { "rejected_calls_extended" } else { "rejected_calls_pruned" }, 1);
                    // nothing is retracted by a rejected call either
                    let after: &Vec<u8> = &w.get_ref().data;
                    if after.len() < before.len() || after[..before.len()] != before[..] {
                        ctx.violation("flushed-bytes-retracted-or-altered", &d, &format!("before {} after the rejected call {}", hex(&before), hex(after)));
                    }
                    rejected = true;
                }
                Ok(()) => {
                    accepted = true;
                    m.apply(c);
                    let after: &Vec<u8> = &w.get_ref().data;
                    if m.open.iter().any(|o| o.1) && m.open.iter().any(|o| !o.1) {
                        ctx.nontrivial();
                    }
                    // (1) handed-over bytes are never retracted or altered
                    if after.len() < before.len() || after[..before.len()] != before[..] {
                        ctx.violation("flushed-bytes-retracted-or-altered", &d, &format!("before {} after {}", hex(&before), hex(after)));
                    }
                    // (2) while a known-size master is open none of its content is handed over
                    if known_open_before && m.any_known_open() && !matches!(c, WCall::Flush) && after.len() != before.len() {
                        ctx.violation("content-of-open-known-size-master-handed-over", &d, &format!("destination grew from {} to {} bytes", before.len(), after.len()));
                    }
                    // (3) complete whenever no known-size master is open
                    let is_element_call = !matches!(c, WCall::Tag(NItem::Start(_), _));
                    if !m.any_known_open() && is_element_call && !m.ambiguous {
                        ctx.count("complete_states_checked", 1);
                        let want = m.expected_read();
                        let obs = parse_slice::<V>(after, &self.rcfg);
                        ctx.transitions += obs.items.len() as u64 + 1;
                        if !obs.clean() || obs.item_list() != want {
                            ctx.violation(if matches!(c, WCall::Flush) { "flush/destination-does-not-hold-all-accepted-tags" } else { "no-known-size-master-open/destination-incomplete" }, &d, &format!("destination {} reads as {} | accepted so far [{}]", hex(after), obs.short(), want.iter().map(|i| i.short()).collect::<Vec<_>>().join(" ")));
                        }
                    }
                    ctx.outcome(&(after.len(), m.open.len()));
                }
            }
            // into_inner at this point: closes everything and delivers everything; what was handed over before is a prefix
            if accepted {
                let handed: Vec<u8> = w.get_ref().data.clone();
                let mut mf = m.clone();
                mf.apply(&WCall::Flush);
                match std::panic::catch_unwind(std::panic::AssertUnwindSafe(move || w.into_inner())) {
                    Err(p) => ctx.violation("into_inner/panic", &d, &crate::obs::panic_msg(p)),
                    Ok(Err(ebml_iterable::error::TagWriterError::TagSizeError(_))) if !m.explicit_width_open.is_empty() => {
                        // a master with an explicit size width is open: whether its content fits is C09's business
                        ctx.count("into_inner_refused_for_explicit_width_master", 1);
                    }
                    Ok(Err(e)) => ctx.violation("into_inner/failed", &d, &format!("{:?}", e)),
                    Ok(Ok(dest)) => {
                        ctx.transitions += 1;
                        if dest.data.len() < handed.len() || dest.data[..handed.len()] != handed[..] {
                            ctx.violation("into_inner/earlier-bytes-not-a-prefix-of-final-output", &d, &format!("handed over {} final {}", hex(&handed), hex(&dest.data)));
                        }
                        let want = mf.expected_read();
                        let obs = parse_slice::<V>(&dest.data, &self.rcfg);
                        if mf.ambiguous {
                            ctx.count("ambiguous_histories_not_read_back", 1);
                        } else if !obs.clean() || obs.item_list() != want {
                            ctx.violation("into_inner/output-does-not-hold-all-accepted-tags", &d, &format!("final {} reads as {} | accepted [{}]", hex(&dest.data), obs.short(), want.iter().map(|i| i.short()).collect::<Vec<_>>().join(" ")));
                        }
                    }
                }
            }
            ctx.validated += 1;
            ctx.leave();
            if accepted || (rejected && rej < self.max_rejected) {
                hist.push(ci);
                self.explore(ctx, hist, if accepted { rej } else { rej + 1 });
                hist.pop();
            }
        }
    }

    fn extend_quietly(&self, ctx: &mut Ctx, hist: &mut Vec<usize>, ci: usize, rej: usize) {
        let (mut w, _) = self.replay(hist);
        match apply_call::<V>(&mut w, &self.alpha[ci]) {
            Ok(()) => {
                hist.push(ci);
                self.explore(ctx, hist, rej);
                hist.pop();
            }
            Err(WErr::Panic(_)) => {}
            Err(_) => {
                if rej < self.max_rejected {
                    hist.push(ci);
                    self.explore(ctx, hist, rej + 1);
                    hist.pop();
                }
            }
        }
    }
}

/// explicit size widths that the content may outgrow: the End is then rejected, and the history goes on
pub fn width_alphabet() -> Vec<WCall> {
    let t = |i: NItem, o: WOpt| WCall::Tag(i, o);
    vec![
        t(NItem::Start(ID_ROOT), WOpt::Width(1)),
        t(NItem::Start(ID_ROOT), WOpt::Unknown),
        t(NItem::Start(ID_M), WOpt::Width(1)),
        t(NItem::Start(ID_M), WOpt::Default),
        t(NItem::End(ID_ROOT), WOpt::Default),
        t(NItem::End(ID_M), WOpt::Default),
        t(NItem::Leaf(ID_S, Val::S("x".repeat(127))), WOpt::Default),
        t(NItem::Leaf(ID_U, Val::U(1)), WOpt::Default),
        t(NItem::Leaf(ID_MU, Val::U(2)), WOpt::Default),
        t(NItem::Full(ID_M, vec![NItem::Full(ID_N, vec![NItem::Full(ID_K, vec![NItem::Full(ID_L, vec![NItem::Leaf(ID_LB, Val::B(vec![0x3c; 120]))])])])]), WOpt::Default),
        t(NItem::Start(ID_EBML), WOpt::Default),
        t(NItem::End(ID_EBML), WOpt::Default),
        // a Full whose children contain an End of its own master: rejected, and nothing of it may reach the destination
        t(NItem::Full(ID_EBML, vec![NItem::End(ID_EBML)]), WOpt::Default),
        t(NItem::Full(ID_M, vec![NItem::Leaf(ID_MU, Val::U(5)), NItem::End(ID_M)]), WOpt::Default),
        // a raw tag (id outside the specification) through write(), not write_raw()
        t(NItem::Raw(0xf3, vec![7, 8]), WOpt::Default),
        WCall::Flush,
    ]
}

pub fn run(ctx: &mut Ctx) {
    let rs = v_refspec();
    assert_spec_matches::<V>(&rs);
    let alpha = alphabet(!ctx.quick());
    let depth = ctx.tier.pick(8, 10);
    ctx.meta("rule", "cases: every sequence of writer calls up to the depth bound over the call alphabet (Start of Root/M/N known-size, with explicit width, with unknown size via write_advanced and via the deprecated call; End of each; leaves with default and explicit width; Full of a one- and a two-level subtree; write_raw; flush), explored depth-first on the real TagWriter (a rejected call is not extended; once over a destination that accepts every write whole and, two levels shallower, over destinations that accept 1 resp. 3 bytes per write call), plus a second alphabet around masters with an explicit 1-byte size field (content of 127+ bytes makes their End fail) explored with at most one REJECTED call per history, after which the history goes on with the model unchanged; destination inspected after EVERY call and into_inner() tried in EVERY reached state. Oracle: reference model of open chain + accepted tags: destination only grows by appending; while a known-size master stays open it does not grow; after an element / Full / End / flush call with no known-size master open a strict read of the destination yields exactly the accepted tags (plus the Ends end-of-input supplies for unknown-size masters still open); into_inner's output extends what was handed over and reads as all accepted tags with everything closed. Non-trivial: states with both a known- and an unknown-size master open.");
    ctx.meta("bounds", &format!("alphabet {} calls, depth {}", alpha.len(), depth));
    ctx.meta("assumptions", "global elements are not in the alphabet (a global directly after an unknown-size master's End is inherently ambiguous on read-back) || reader tolerates unknown ids for the write_raw tag");
    for c in ["complete_states_checked", "rejected_calls_pruned", "rejected_calls_extended", "short_write_destinations"] {
        ctx.expect_nonzero(c);
    }
    let e = Explorer { alpha: &alpha, depth, rcfg: Cfg::strict().with_allow(ALLOW_IDS), level1: std::cell::Cell::new(0), dest_cap: None, max_rejected: 0 };
    let mut hist = Vec::new();
    e.explore(ctx, &mut hist, 0);
    // histories that go on after a rejected call (at most one per history): masters with an explicit 1-byte size field
    // whose End is rejected once the content has outgrown it
    let walpha = width_alphabet();
    let e = Explorer { alpha: &walpha, depth: ctx.tier.pick(6, 7), rcfg: Cfg::strict().with_allow(ALLOW_IDS), level1: std::cell::Cell::new(0), dest_cap: None, max_rejected: 1 };
    let mut hist = Vec::new();
    e.explore(ctx, &mut hist, 0);
    // the same exploration, two levels shallower, over destinations that take 1 resp. 3 bytes per write call
    for cap in [1usize, 3] {
        let e = Explorer { alpha: &alpha, depth: depth.saturating_sub(2), rcfg: Cfg::strict().with_allow(ALLOW_IDS), level1: std::cell::Cell::new(0), dest_cap: Some(cap), max_rejected: 0 };
        let mut hist = Vec::new();
        e.explore(ctx, &mut hist, 0);
        ctx.count("short_write_destinations", 1);
    }
}
