//! C12 — truncated input yields the complete prefix, then an accurate end-of-file error.

use crate::ctx::Ctx;
use crate::docs::{self, DocParams};
use crate::obs::{parse_script, Cfg, NErr, Obs, Step, Term};
use crate::refmodel::{flatten, hex, id_bytes, ref_encode, Kind, Lay, NItem, Node};
use crate::spec::{v_refspec, RefSpec, ID_TAG, ID_VOID, V};

/// What the statement prescribes for the prefix `bytes[..c]`.
pub struct Expect {
    pub items: Vec<(NItem, usize)>,
    /// None = clean termination; Some(layout index of the incomplete tag)
    pub incomplete: Option<usize>,
}

/// DFS order of nodes matches `lay`. Completion position of each flattened item (see DESIGN C12).
pub fn expect_for_cut(doc: &[Node], lay: &[Lay], len: usize, c: usize) -> Expect {
    // flatten with, per item: completion position and (for Ends) the layout index
    #[derive(Clone)]
    struct It {
        item: NItem,
        off: usize,
        done: usize,   // bytes that must be available for this item to be emitted
        lay: usize,    // layout index of the node
        is_end: bool,
        unknown: bool, // End of an unknown-size master
    }
    fn rec(nodes: &[Node], lay: &[Lay], li: &mut usize, out: &mut Vec<It>) {
        for n in nodes {
            let my = *li;
            *li += 1;
            let l = &lay[my];
            match &n.kind {
                Kind::Master(ch) => {
                    out.push(It { item: NItem::Start(n.id), off: l.tag_start, done: l.data_start, lay: my, is_end: false, unknown: false });
                    rec(ch, lay, li, out);
                    out.push(It { item: NItem::End(n.id), off: l.tag_start, done: l.end, lay: my, is_end: true, unknown: l.unknown });
                }
                Kind::Leaf { val, .. } => out.push(It { item: NItem::Leaf(n.id, val.clone()), off: l.tag_start, done: l.end, lay: my, is_end: false, unknown: false }),
                Kind::RawLeaf(b) => out.push(It { item: NItem::Raw(n.id, b.clone()), off: l.tag_start, done: l.end, lay: my, is_end: false, unknown: false }),
            }
        }
    }
    let mut its: Vec<It> = Vec::new();
    let mut li = 0;
    rec(doc, lay, &mut li, &mut its);
    // an unknown-size master's End needs the element that closes it to be complete, unless an enclosing
    // known-size master's range ends first
    let n = its.len();
    for i in (0..n).rev() {
        if its[i].is_end && its[i].unknown {
            // next non-End item after i
            let next_done = its[i + 1..].iter().find(|x| !x.is_end).map(|x| x.done);
            // nearest enclosing known-size master: the first later End of a known-size master that encloses us
            let my_depth = lay[its[i].lay].depth;
            let enclosing_known = its[i + 1..].iter().find(|x| x.is_end && !x.unknown && lay[x.lay].depth < my_depth && lay[x.lay].tag_start <= lay[its[i].lay].tag_start && lay[x.lay].end >= lay[its[i].lay].end).map(|x| x.done);
            let mut d = usize::MAX;
            if let Some(x) = next_done {
                d = d.min(x);
            }
            if let Some(x) = enclosing_known {
                d = d.min(x);
            }
            its[i].done = d; // MAX = only the end of input closes it
        }
    }
    let mut items = Vec::new();
    let mut open: Vec<(u64, usize)> = Vec::new();
    let mut k = 0;
    while k < n && its[k].done <= c {
        match &its[k].item {
            NItem::Start(id) => open.push((*id, its[k].off)),
            NItem::End(_) => {
                open.pop();
            }
            _ => {}
        }
        items.push((its[k].item.clone(), its[k].off));
        k += 1;
    }
    let boundary = c == len || lay.iter().any(|l| l.tag_start == c);
    if boundary {
        while let Some((id, off)) = open.pop() {
            items.push((NItem::End(id), off));
        }
        Expect { items, incomplete: None }
    } else {
        // the incomplete tag is the first not-yet-emitted non-End item
        let inc = its[k..].iter().find(|x| !x.is_end).map(|x| x.lay).expect("machinery: cut inside a tag but no incomplete tag");
        Expect { items, incomplete: Some(inc) }
    }
}

pub fn check_cut(bytes: &[u8], lay: &[Lay], c: usize, exp: &Expect, obs: &Obs) -> Result<(), (String, String)> {
    let common = obs.items.iter().zip(exp.items.iter()).take_while(|(a, b)| a == b).count();
    if common < exp.items.len().min(obs.items.len()) || obs.items.len() != exp.items.len() {
        let key = if obs.items.len() < exp.items.len() && common == obs.items.len() { "items/complete-tag-missing" } else if obs.items.len() > exp.items.len() && common == exp.items.len() { "items/extra" } else { "items/differ" };
        return Err((key.into(), format!("expected items [{}]", exp.items.iter().map(|(i, o)| format!("{}@{}", i.short(), o)).collect::<Vec<_>>().join(" "))));
    }
    match (exp.incomplete, &obs.term) {
        (None, Term::Done) => Ok(()),
        (None, t) => Err((format!("boundary-cut/{}", term_kind(t)), "cut on a tag boundary must end cleanly after the closing Ends".into())),
        (Some(li), Term::Err(NErr::Eof { tag_start, id, size, partial })) => {
            let l = &lay[li];
            let idlen = id_bytes(l.id).len();
            if *tag_start != l.tag_start {
                return Err(("eof/tag_start-wrong".into(), format!("incomplete tag starts at {}", l.tag_start)));
            }
            let want_id = if c >= l.tag_start + idlen { Some(l.id) } else { None };
            if *id != want_id {
                return Err((if want_id.is_some() { "eof/id-missing-or-wrong" } else { "eof/id-present-though-incomplete" }.into(), format!("id bytes complete: {} (id {:x})", want_id.is_some(), l.id)));
            }
            let header_complete = c >= l.data_start;
            let want_size = if header_complete { Some(l.end - l.data_start) } else { None };
            if *size != want_size {
                return Err((if want_size.is_some() { "eof/size-missing-or-wrong" } else { "eof/size-present-though-header-incomplete" }.into(), format!("want size {:?}", want_size)));
            }
            let avail: &[u8] = if header_complete { &bytes[l.data_start..c] } else { &[] };
            let ok = match partial {
                None => avail.is_empty(),
                Some(p) => &p[..] == avail,
            };
            if !ok {
                return Err(("eof/partial-data-wrong".into(), format!("available payload bytes [{}], reported {} bytes", hex(avail), partial.as_ref().map(|p| p.len()).unwrap_or(0))));
            }
            Ok(())
        }
        (Some(_), t) => Err((format!("inside-tag-cut/{}", term_kind(t)), "a cut inside a tag must be reported as UnexpectedEOF".into())),
    }
}

/// The expected items with the masters of `set` buffered: a complete buffered master becomes one Full item (every
/// master inside it is a Full as well); a buffered master whose End is not among the expected items is incomplete and
/// nothing of it is emitted (it is the last thing before the end-of-file error).
pub fn rollup_expect(items: &[(NItem, usize)], set: &[u64]) -> Vec<(NItem, usize)> {
    rollup_expect_ex(items, set, false)
}

/// `flat_tail`: the alternative reading in which an incomplete buffered master comes out flat (Start and the complete
/// tags inside it) instead of not at all — the statements are silent on which, both are accepted.
pub fn rollup_expect_ex(items: &[(NItem, usize)], set: &[u64], flat_tail: bool) -> Vec<(NItem, usize)> {
    fn matching_end(items: &[(NItem, usize)], i: usize) -> Option<usize> {
        let mut depth = 0usize;
        for (j, (it, _)) in items.iter().enumerate().skip(i) {
            match it {
                NItem::Start(_) => depth += 1,
                NItem::End(_) => {
                    depth -= 1;
                    if depth == 0 {
                        return Some(j);
                    }
                }
                _ => {}
            }
        }
        None
    }
    fn build(items: &[(NItem, usize)]) -> Vec<NItem> {
        let mut out = Vec::new();
        let mut i = 0;
        while i < items.len() {
            match &items[i].0 {
                NItem::Start(id) => {
                    let j = matching_end(items, i).expect("machinery: unbalanced inside a complete master");
                    out.push(NItem::Full(*id, build(&items[i + 1..j])));
                    i = j + 1;
                }
                other => {
                    out.push(other.clone());
                    i += 1;
                }
            }
        }
        out
    }
    let mut out = Vec::new();
    let mut i = 0;
    while i < items.len() {
        match &items[i].0 {
            NItem::Start(id) if set.contains(id) => match matching_end(items, i) {
                Some(j) => {
                    out.push((NItem::Full(*id, build(&items[i + 1..j])), items[i].1));
                    i = j + 1;
                }
                None => {
                    if flat_tail {
                        out.extend(items[i..].iter().cloned());
                    }
                    return out;
                }
            },
            _ => {
                out.push(items[i].clone());
                i += 1;
            }
        }
    }
    out
}

fn term_kind(t: &Term) -> String {
    match t {
        Term::Done => "ended-cleanly".into(),
        Term::Err(e) => e.kind().to_string(),
        Term::Panic(_) => "panic".into(),
        Term::Budget => "no-termination".into(),
    }
}

pub fn run(ctx: &mut Ctx) {
    let rs = v_refspec();
    crate::spec::assert_spec_matches::<V>(&rs);
    let quick = ctx.quick();
    let p = DocParams {
        max_nodes: ctx.tier.pick(4, 5),
        globals: vec![ID_TAG, ID_VOID],
        exclude: vec![],
        unknown_subsets: true,
        devs: 1,
        payload_classes: true,
        big_payloads: !quick,
        noncanonical: false,
        width_devs: true,
        extras: true,
        all_widths: false,
    };
    ctx.meta("rule", "cases: (document, cut position c, capacity, read schedule); documents = every forest over V up to the node bound the hand-written deep spines and documents with a 20-45-byte payload inside open known-size masters (the buffer grows under capacities 16/17), every known/unknown-size choice of masters, one encoding/payload deviation; every c in 0..=len; capacities {default,16,17,64}; schedules with <= 1 short read (1,2,3,7 bytes at read k) and with every read 1 resp. 2 bytes; every (document, cut) also with each master id present, and all of them, buffered (whole reads and 1-byte reads): a complete buffered master is one Full item, nothing of an incomplete one is emitted (or, also accepted, its Start and complete tags come out flat), everything before it is, and the error is the same. Oracle: RefEncoder layout -> items completely inside the prefix, then Ends+None on a tag boundary, else UnexpectedEOF with tag_start/id/size/partial_data exactly as the statement prescribes (partial_data None accepted for zero available bytes). Non-trivial: cuts strictly inside a tag.");
    ctx.meta("bounds", &format!("documents <= {} elements (+ spines to depth 5 with 8-byte ids), <=1 deviation, all cuts, 4 capacities, <=1 read deviation", p.max_nodes));
    ctx.meta("assumptions", "payload contents are data-independent beyond the representative classes");
    for c in ["cut_inside_id", "cut_inside_size", "cut_inside_payload", "cut_on_boundary_with_open_masters", "unknown_size_docs", "cuts_with_buffered_masters", "cut_inside_buffered_master_that_follows_another_master", "grown_buffer_docs"] {
        ctx.expect_nonzero(c);
    }
    let caps = [None, Some(16), Some(17), Some(64)];
    let mut body = |ctx: &mut Ctx, doc: &Vec<Node>| -> bool {
        if crate::gen::has_ambiguous_global_after_unknown(&rs, doc) {
            return true;
        }
        let (bytes, lay) = ref_encode(doc);
        let _ = flatten;
        let has_unknown = lay.iter().any(|l| l.unknown);
        // buffered sets: each master id present alone, and all of them
        let mut present: Vec<u64> = Vec::new();
        crate::refmodel::visit(doc, &mut |n, _| {
            if n.is_master() && !present.contains(&n.id) {
                present.push(n.id);
            }
        }, 0);
        let mut bsets: Vec<Vec<u64>> = present.iter().map(|i| vec![*i]).collect();
        if present.len() > 1 {
            bsets.push(present.clone());
        }
        for c in 0..=bytes.len() {
            let exp = expect_for_cut(doc, &lay, bytes.len(), c);
            let prefix = &bytes[..c];
            for cap in caps {
                let cfg = Cfg::strict().with_cap(cap);
                // zero deviations first, then one short read at read k
                let mut schedules: Vec<Vec<Step>> = vec![vec![]];
                if c > 1 {
                    schedules.push(vec![Step::Max(1); c + 2]);
                    schedules.push(vec![Step::Max(2); c / 2 + 2]);
                }
                if c > 0 {
                    for k in 0..3usize {
                        for m in [1usize, 2, 3, 7] {
                            if m >= c && k > 0 {
                                continue;
                            }
                            let mut s = vec![Step::Full; k];
                            s.push(Step::Max(m));
                            schedules.push(s);
                        }
                    }
                }
                // buffered masters (default capacity): whole reads and 1-byte reads
                if cap.is_none() {
                    for set in &bsets {
                        let bexp = Expect { items: rollup_expect(&exp.items, set), incomplete: exp.incomplete };
                        let bcfg = cfg.clone().with_buffered(set);
                        for steps in [vec![], vec![Step::Max(1); c + 2]] {
                            let d = || format!("doc=[{}] bytes={} cut={} buffered=[{}] steps={:?}", docs::doc_short(&rs, doc), hex(&bytes), c, set.iter().map(|x| format!("{:x}", x)).collect::<Vec<_>>().join(","), steps);
                            if !ctx.enter(&d) {
                                continue;
                            }
                            let (obs, _, _) = parse_script::<V>(prefix, &bcfg, &steps);
                            ctx.transitions += obs.items.len() as u64 + 1;
                            ctx.count("cuts_with_buffered_masters", 1);
                            if exp.incomplete.is_some() {
                                ctx.nontrivial();
                                if bexp.items.len() < exp.items.len() && bexp.items.last().map(|x| matches!(x.0, NItem::Full(..) | NItem::End(_))).unwrap_or(false) {
                                    ctx.count("cut_inside_buffered_master_that_follows_another_master", 1);
                                }
                            }
                            if let Err((k, det)) = check_cut(&bytes, &lay, c, &bexp, &obs) {
                                let alt = Expect { items: rollup_expect_ex(&exp.items, set, true), incomplete: exp.incomplete };
                                if check_cut(&bytes, &lay, c, &alt, &obs).is_err() {
                                    ctx.violation(&format!("buffered/{}", k), &d, &format!("{} | observed {}", det, obs.short()));
                                }
                            }
                            ctx.validated += 1;
                            ctx.leave();
                        }
                    }
                }
                for steps in &schedules {
                    let d = || format!("doc=[{}] bytes={} cut={} cap={:?} steps={:?}", docs::doc_short(&rs, doc), hex(&bytes), c, cap, steps);
                    if !ctx.enter(&d) {
                        continue;
                    }
                    let (obs, _reads, _served) = parse_script::<V>(prefix, &cfg, steps);
                    ctx.transitions += obs.items.len() as u64 + 1;
                    if let Some(li) = exp.incomplete {
                        ctx.nontrivial();
                        let l = &lay[li];
                        let idlen = id_bytes(l.id).len();
                        if c < l.tag_start + idlen {
                            ctx.count("cut_inside_id", 1);
                        } else if c < l.data_start {
                            ctx.count("cut_inside_size", 1);
                        } else {
                            ctx.count("cut_inside_payload", 1);
                        }
                    } else if exp.items.last().map(|x| x.0.is_end()).unwrap_or(false) && c < bytes.len() {
                        ctx.count("cut_on_boundary_with_open_masters", 1);
                    }
                    if has_unknown {
                        ctx.count("unknown_size_docs", 1);
                    }
                    ctx.outcome(&(obs.items.len(), std::mem::discriminant(&obs.term)));
                    if let Err((k, det)) = check_cut(&bytes, &lay, c, &exp, &obs) {
                        let k = if has_unknown { format!("unknown-size-doc/{}", k) } else { k };
                        ctx.violation(&k, &d, &format!("{} | observed {}", det, obs.short()));
                    }
                    ctx.validated += 1;
                    ctx.leave();
                }
            }
        }
        !ctx.should_stop()
    };
    docs::for_each_doc(ctx, &rs, &p, &mut body);
    // payloads of 20..45 bytes inside open known-size masters: with capacities 16 / 17 the buffer has to grow for
    // them (to more than twice its size)
    for (i, doc) in docs::grown_buffer_docs().into_iter().enumerate() {
        if ctx.mine(i as u64) && !docs::doc_has_raw(&doc) {
            ctx.count("grown_buffer_docs", 1);
            body(ctx, &doc);
        }
    }
}
