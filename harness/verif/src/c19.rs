//! C19 — a rejected write leaves no trace in the output.

use ebml_iterable::TagWriter;

use crate::ctx::Ctx;
use crate::obs::{apply_call, Dest, WCall, WErr, WOpt};
use crate::refmodel::{hex, NItem, Val};
use crate::spec::*;

fn t(i: NItem, o: WOpt) -> WCall {
    WCall::Tag(i, o)
}

/// calls used to build valid histories and continuations
pub fn base_alphabet(thorough: bool) -> Vec<WCall> {
    let mut a = vec![
        t(NItem::Start(ID_ROOT), WOpt::Default),
        t(NItem::Start(ID_ROOT), WOpt::Width(1)),
        t(NItem::Start(ID_ROOT), WOpt::Unknown),
        t(NItem::Start(ID_M), WOpt::Default),
        t(NItem::Start(ID_M), WOpt::Unknown),
        t(NItem::Start(ID_N), WOpt::Default),
        t(NItem::End(ID_ROOT), WOpt::Default),
        t(NItem::End(ID_M), WOpt::Default),
        t(NItem::End(ID_N), WOpt::Default),
        t(NItem::Leaf(ID_U, Val::U(1)), WOpt::Default),
        t(NItem::Leaf(ID_S, Val::S("x".repeat(127))), WOpt::Default),
        t(NItem::Leaf(ID_MU, Val::U(300)), WOpt::Width(2)),
        t(NItem::Full(ID_M, vec![NItem::Leaf(ID_MU, Val::U(2)), NItem::Full(ID_N, vec![NItem::Leaf(ID_NU, Val::U(4))])]), WOpt::Default),
        WCall::Flush,
        // 125 bytes in one call (valid under Root/M): with Root started at width 1 the outer content becomes 127
        t(NItem::Full(ID_N, vec![NItem::Full(ID_K, vec![NItem::Full(ID_L, vec![NItem::Leaf(ID_LB, Val::B(vec![0x3c; 107]))])])]), WOpt::Default),
    ];
    if thorough {
        a.push(t(NItem::Leaf(ID_NU, Val::U(7)), WOpt::Default));
        a.push(WCall::Raw(0xf2, vec![1, 2]));
        a.push(t(NItem::Start(ID_N), WOpt::UnknownDeprecated));
    }
    a
}

/// calls that exist only to fail (each of the kinds the statement lists, in several shapes)
pub fn failing_only() -> Vec<(&'static str, WCall)> {
    let big = "y".repeat(200);
    vec![
        ("width-too-small-leaf", t(NItem::Leaf(ID_S, Val::S("x".repeat(127))), WOpt::Width(1))),
        ("width-too-small-leaf", t(NItem::Leaf(ID_B, Val::B(vec![7; 16384])), WOpt::Width(2))),
        ("width-too-small-leaf", t(NItem::Leaf(ID_MU, Val::U(1)), WOpt::Width(1))), // fits: only fails by placement
        ("unknown-size-on-non-master", t(NItem::Leaf(ID_U, Val::U(1)), WOpt::Unknown)),
        ("unknown-size-on-non-master", t(NItem::Leaf(ID_MU, Val::U(1)), WOpt::UnknownDeprecated)),
        ("unknown-size-on-non-master", t(NItem::Raw(0xf2, vec![1]), WOpt::Unknown)),
        ("malformed-raw-id", t(NItem::Raw(0x1, vec![1, 2, 3]), WOpt::Default)),
        ("malformed-raw-id", t(NItem::Raw(0x100, vec![]), WOpt::Width(2))),
        ("malformed-raw-id", t(NItem::Raw(0x8000000000000000, vec![9]), WOpt::Default)),
        ("full-with-invalid-child", t(NItem::Full(ID_M, vec![NItem::Leaf(ID_U, Val::U(1))]), WOpt::Default)),
        ("full-with-invalid-child", t(NItem::Full(ID_M, vec![NItem::Leaf(ID_MU, Val::U(1)), NItem::Leaf(ID_U, Val::U(1))]), WOpt::Default)),
        ("full-with-invalid-child", t(NItem::Full(ID_M, vec![NItem::Leaf(ID_MU, Val::U(1)), NItem::Full(ID_N, vec![NItem::Leaf(ID_NU, Val::U(1)), NItem::Leaf(ID_MU, Val::U(1))]), NItem::Leaf(ID_MU, Val::U(2))]), WOpt::Default)),
        ("full-with-invalid-child", t(NItem::Full(ID_M, vec![NItem::Leaf(ID_MU, Val::U(1)), NItem::Raw(0x1, vec![1])]), WOpt::Width(2))),
        ("full-with-invalid-child", t(NItem::Full(ID_ROOT, vec![NItem::Leaf(ID_U, Val::U(1)), NItem::Full(ID_M, vec![NItem::Full(ID_K, vec![])])]), WOpt::Default)),
        // Start / End items among the children of a Full: an End of the Full's own master (or of one opened outside
        // it), a Start that is never ended
        ("full-with-invalid-child", t(NItem::Full(ID_ROOT, vec![NItem::End(ID_ROOT)]), WOpt::Default)),
        ("full-with-invalid-child", t(NItem::Full(ID_M, vec![NItem::End(ID_M)]), WOpt::Default)),
        ("full-with-invalid-child", t(NItem::Full(ID_M, vec![NItem::Leaf(ID_MU, Val::U(1)), NItem::End(ID_M), NItem::Leaf(ID_MU, Val::U(2))]), WOpt::Default)),
        ("full-with-invalid-child", t(NItem::Full(ID_M, vec![NItem::End(ID_ROOT)]), WOpt::Default)),
        ("full-with-invalid-child", t(NItem::Full(ID_ROOT, vec![NItem::Start(ID_M)]), WOpt::Default)),
        ("full-with-invalid-child", t(NItem::Full(ID_M, vec![NItem::Start(ID_N), NItem::End(ID_N), NItem::End(ID_M)]), WOpt::Default)),
        ("full-too-big-for-width", t(NItem::Full(ID_ROOT, vec![NItem::Leaf(ID_S, Val::S(big.clone()))]), WOpt::Width(1))),
        ("full-too-big-for-width", t(NItem::Full(ID_ROOT, vec![NItem::Leaf(ID_U, Val::U(1)), NItem::Leaf(ID_S, Val::S("z".repeat(122)))]), WOpt::Width(1))),
        ("full-with-unknown-size", t(NItem::Full(ID_M, vec![NItem::Leaf(ID_MU, Val::U(1))]), WOpt::Unknown)),
        // an End that carries the unknown-size option (or goes through the deprecated call) is an End like any other
        ("end-of-unopened", t(NItem::End(ID_K), WOpt::Unknown)),
        ("end-of-unopened", t(NItem::End(ID_ROOT), WOpt::Unknown)),
        ("end-of-unopened", t(NItem::End(ID_M), WOpt::UnknownDeprecated)),
        ("end-of-unopened", t(NItem::End(ID_ROOT), WOpt::UnknownDeprecated)),
        ("end-of-unopened", t(NItem::End(ID_N), WOpt::Width(3))),
        ("end-of-unopened", t(NItem::End(ID_K), WOpt::Default)),
        ("end-of-unopened", t(NItem::End(ID_P), WOpt::Width(2))),
        ("not-allowed-here", t(NItem::Start(ID_K), WOpt::Unknown)),
        ("not-allowed-here", t(NItem::Start(ID_L), WOpt::Width(4))),
        ("not-allowed-here", t(NItem::Leaf(ID_LB, Val::B(vec![1, 2, 3])), WOpt::Default)),
        ("not-allowed-here", t(NItem::Leaf(ID_EU, Val::U(1)), WOpt::Width(8))),
    ]
}

struct Snapshot {
    result: Result<(), WErr>,
    dest: Vec<u8>,
}

fn run_seq(alpha: &[WCall], hist: &[usize], insert: Option<&WCall>, cont: &[&WCall]) -> (Option<Result<(), WErr>>, Vec<Snapshot>, Result<(), WErr>, Vec<u8>) {
    let mut w = TagWriter::new(Dest::default());
    for i in hist {
        let _ = apply_call::<V>(&mut w, &alpha[*i]);
    }
    let ins = insert.map(|c| apply_call::<V>(&mut w, c));
    let mut snaps = Vec::new();
    for c in cont {
        let r = apply_call::<V>(&mut w, c);
        snaps.push(Snapshot { result: r, dest: w.get_ref().data.clone() });
    }
    match std::panic::catch_unwind(std::panic::AssertUnwindSafe(move || w.into_inner())) {
        Ok(Ok(d)) => (ins, snaps, Ok(()), d.data),
        Ok(Err(e)) => (ins, snaps, Err(crate::obs::norm_werr(&e)), Vec::new()),
        Err(p) => (ins, snaps, Err(WErr::Panic(crate::obs::panic_msg(p))), Vec::new()),
    }
}

fn same_result(a: &Result<(), WErr>, b: &Result<(), WErr>) -> bool {
    match (a, b) {
        (Ok(()), Ok(())) => true,
        (Err(x), Err(y)) => x.kind() == y.kind(),
        _ => false,
    }
}

struct Explorer<'a> {
    alpha: &'a [WCall],
    fails: Vec<(String, WCall)>,
    depth: usize,
    cont_len: usize,
    level1: std::cell::Cell<u64>,
}

impl<'a> Explorer<'a> {
    fn check_state(&self, ctx: &mut Ctx, hist: &[usize]) {
        // continuations: every sequence of <= cont_len calls of the base alphabet
        let mut conts: Vec<Vec<&WCall>> = vec![vec![]];
        for c1 in self.alpha {
            conts.push(vec![c1]);
            if self.cont_len >= 2 {
                for c2 in self.alpha {
                    conts.push(vec![c1, c2]);
                }
            }
        }
        // candidate failing calls: everything; those the writer actually rejects here are in the premise
        let cands: Vec<(String, &WCall)> = self.alpha.iter().map(|c| ("alphabet-call-rejected-here".to_string(), c)).chain(self.fails.iter().map(|(k, c)| (k.clone(), c))).collect();
        for (kind, f) in cands {
            // premise: f is rejected with a non-I/O error in this state
            let (ins, _, _, _) = run_seq(self.alpha, hist, Some(f), &[]);
            let ins = ins.unwrap();
            ctx.transitions += hist.len() as u64 + 2;
            let err = match &ins {
                Ok(()) => {
                    if kind != "alphabet-call-rejected-here" {
                        ctx.count("failing-only call accepted here (outside the premise)", 1);
                    }
                    continue;
                }
                Err(e) => e.clone(),
            };
            if err.is_io() {
                continue;
            }
            let kind = match &err {
                WErr::UnexpectedTag { .. } => "tag-not-allowed-here".to_string(),
                WErr::UnexpectedClosing { .. } => "end-of-non-innermost-master".to_string(),
                WErr::TagId(_) => "malformed-raw-id".to_string(),
                WErr::Panic(_) => "panic".to_string(),
                WErr::TagSize(_) => {
                    if kind == "alphabet-call-rejected-here" {
                        "size-not-representable".to_string()
                    } else {
                        kind.clone()
                    }
                }
                WErr::Io(_) => unreachable!(),
            };
            let kind = if matches!(f, WCall::Tag(NItem::Full(..), _)) && kind == "tag-not-allowed-here" { "full-with-invalid-child-or-placement".to_string() } else { kind };
            ctx.count(&format!("rejected:{}", kind), 1);
            for cont in &conts {
                let d = || format!("history [{}] then REJECTED {} then [{}]", hist.iter().map(|i| self.alpha[*i].short()).collect::<Vec<_>>().join(", "), f.short(), cont.iter().map(|c| c.short()).collect::<Vec<_>>().join(", "));
                if !ctx.enter(&d) {
                    continue;
                }
                if !hist.is_empty() && !cont.is_empty() {
                    ctx.nontrivial();
                }
                if let WErr::Panic(p) = &err {
                    ctx.violation("writer/panic", &d, p);
                    ctx.leave();
                    continue;
                }
                let (_, sa, fa, oa) = run_seq(self.alpha, hist, None, cont);
                let (_, sb, fb, ob) = run_seq(self.alpha, hist, Some(f), cont);
                ctx.transitions += 2 * (hist.len() + cont.len() + 1) as u64 + 1;
                let mut bad: Option<(String, String)> = None;
                for (k, (a, b)) in sa.iter().zip(sb.iter()).enumerate() {
                    if !same_result(&a.result, &b.result) {
                        bad = Some((format!("{}/later-call-behaves-differently", kind), format!("later call #{} {}: without the rejected call {:?}, with it {:?}", k, cont[k].short(), a.result, b.result)));
                        break;
                    }
                    if a.dest != b.dest {
                        bad = Some((format!("{}/destination-differs-after-later-call", kind), format!("after later call #{} {}: {} vs {}", k, cont[k].short(), hex(&a.dest), hex(&b.dest))));
                        break;
                    }
                }
                if let Err(WErr::Panic(p)) = &fb {
                    bad = Some((format!("{}/into_inner-panics-after-rejected-call", kind), p.clone()));
                }
                if bad.is_none() && (!same_result(&fa, &fb) || oa != ob) {
                    bad = Some((format!("{}/final-output-differs", kind), format!("into_inner {:?} {} vs {:?} {}", fa, hex(&oa), fb, hex(&ob))));
                }
                ctx.outcome(&(oa.len(), kind.len()));
                if let Some((k, det)) = bad {
                    ctx.violation(&k, &d, &det);
                }
                ctx.validated += 1;
                ctx.leave();
            }
        }
    }

    fn explore(&self, ctx: &mut Ctx, hist: &mut Vec<usize>) {
        if ctx.should_stop() {
            return;
        }
        // the state reached by `hist` (all calls accepted)
        let level = hist.len();
        let mine = match level {
            0 => ctx.shard == 0,
            1 => ctx.mine(1 + hist[0] as u64),
            _ => true,
        };
        if mine {
            self.check_state(ctx, hist);
        }
        if hist.len() >= self.depth {
            return;
        }
        for ci in 0..self.alpha.len() {
            if level == 1 {
                // subtrees below depth-2 nodes are dealt round-robin
                let k = self.level1.get();
                self.level1.set(k + 1);
                if !ctx.mine(k) {
                    continue;
                }
            }
            let mut w = TagWriter::new(Dest::default());
            for i in hist.iter() {
                let _ = apply_call::<V>(&mut w, &self.alpha[*i]);
            }
            if apply_call::<V>(&mut w, &self.alpha[ci]).is_ok() {
                hist.push(ci);
                self.explore(ctx, hist);
                hist.pop();
            }
        }
    }
}

/// Chains of 1-5 open known-size masters, one of them with a 1-byte size field, around a payload whose length sweeps
/// across the point where that field overflows: the headers of the masters still to be closed count too, so whether
/// flush() / an End is rejected depends on content + pending headers. Rejected calls (premise decided by the writer
/// itself) must leave no trace.
fn size_window_sweep(ctx: &mut Ctx) {
    let chain = [ID_ROOT, ID_M, ID_N, ID_K, ID_L];
    let small_leaf = [NItem::Leaf(ID_U, Val::U(1)), NItem::Leaf(ID_MU, Val::U(1)), NItem::Leaf(ID_NU, Val::U(1)), NItem::Leaf(ID_KU, Val::U(1)), NItem::Leaf(ID_LB, Val::B(vec![1]))];
    let mut k = 0u64;
    for depth in 1..=5usize {
        for wpos in 0..depth {
            for placement in 0..2usize {
                // 0: a Binary in Root right after its Start; 1: LB in L (needs the whole chain)
                if placement == 1 && depth < 5 {
                    continue;
                }
                for len in 80..=130usize {
                    let mine = ctx.mine(k);
                    k += 1;
                    if !mine {
                        continue;
                    }
                    let mut alpha: Vec<WCall> = Vec::new();
                    for (i, id) in chain[..depth].iter().enumerate() {
                        alpha.push(t(NItem::Start(*id), if i == wpos { WOpt::Width(1) } else { WOpt::Default }));
                        if i == 0 && placement == 0 {
                            alpha.push(t(NItem::Leaf(ID_B, Val::B(vec![0x5a; len])), WOpt::Default));
                        }
                    }
                    if placement == 1 {
                        alpha.push(t(NItem::Leaf(ID_LB, Val::B(vec![0x5a; len])), WOpt::Default));
                    }
                    let hist: Vec<usize> = (0..alpha.len()).collect();
                    let fails: Vec<WCall> = vec![WCall::Flush, t(NItem::End(chain[depth - 1]), WOpt::Default), t(NItem::Full(ID_M, vec![NItem::Leaf(ID_U, Val::U(1))]), WOpt::Default)];
                    let conts: Vec<Vec<WCall>> = vec![vec![], vec![t(small_leaf[depth - 1].clone(), WOpt::Default)], vec![t(NItem::End(chain[depth - 1]), WOpt::Default)], vec![t(NItem::Start(ID_EBML), WOpt::Default)], vec![WCall::Flush], vec![t(small_leaf[depth - 1].clone(), WOpt::Default), WCall::Flush]];
                    for f in &fails {
                        let (ins, _, _, _) = run_seq(&alpha, &hist, Some(f), &[]);
                        ctx.transitions += hist.len() as u64 + 2;
                        let err = match ins.unwrap() {
                            Ok(()) => continue,
                            Err(e) => e,
                        };
                        if err.is_io() {
                            continue;
                        }
                        let kind = match (&err, f) {
                            (WErr::TagSize(_), WCall::Flush) => "size-window/flush-rejected",
                            (WErr::TagSize(_), _) => "size-window/end-rejected",
                            (WErr::Panic(_), _) => "panic",
                            _ => "size-window/other-rejection",
                        };
                        ctx.count(&format!("rejected:{}", kind), 1);
                        for cont in &conts {
                            let cont_refs: Vec<&WCall> = cont.iter().collect();
                            let d = || format!("size window: history [{}] then REJECTED {} then [{}]", alpha.iter().map(|c| c.short()).collect::<Vec<_>>().join(", "), f.short(), cont.iter().map(|c| c.short()).collect::<Vec<_>>().join(", "));
                            if !ctx.enter(&d) {
                                continue;
                            }
                            ctx.nontrivial();
                            let (_, sa, fa, oa) = run_seq(&alpha, &hist, None, &cont_refs);
                            let (_, sb, fb, ob) = run_seq(&alpha, &hist, Some(f), &cont_refs);
                            ctx.transitions += 2 * (hist.len() + cont.len() + 1) as u64 + 1;
                            let mut bad: Option<(String, String)> = None;
                            if let WErr::Panic(p) = &err {
                                bad = Some(("writer/panic".into(), p.clone()));
                            }
                            for (i, (a, b)) in sa.iter().zip(sb.iter()).enumerate() {
                                if bad.is_some() {
                                    break;
                                }
                                if !same_result(&a.result, &b.result) {
                                    bad = Some((format!("{}/later-call-behaves-differently", kind), format!("later call #{} {}: without the rejected call {:?}, with it {:?}", i, cont[i].short(), a.result, b.result)));
                                } else if a.dest != b.dest {
                                    bad = Some((format!("{}/destination-differs-after-later-call", kind), format!("after later call #{} {}: {} vs {}", i, cont[i].short(), hex(&a.dest), hex(&b.dest))));
                                }
                            }
                            if bad.is_none() && (!same_result(&fa, &fb) || oa != ob) {
                                bad = Some((format!("{}/final-output-differs", kind), format!("into_inner {:?} {} vs {:?} {}", fa, hex(&oa), fb, hex(&ob))));
                            }
                            if let Some((key, det)) = bad {
                                ctx.violation(&key, &d, &det);
                            }
                            ctx.validated += 1;
                            ctx.leave();
                        }
                    }
                }
            }
        }
    }
}

pub fn run(ctx: &mut Ctx) {
    let rs = v_refspec();
    assert_spec_matches::<V>(&rs);
    let alpha = base_alphabet(!ctx.quick());
    let depth = ctx.tier.pick(4, 5);
    let cont_len = 2;
    ctx.meta("rule", "cases: (valid history h, rejected call f, continuation s): h = every sequence of accepted calls up to the depth bound over the base alphabet (known/unknown/explicit-width Starts, Ends, leaves incl. a 127-byte string, a two-level Full, flush), f = every alphabet call and every failing-only call (too-small explicit width for leaf / Full / master End via content growth, unknown size on a non-master, malformed raw ids, End of a master that is not innermost or not open (plain, with the unknown-size option, through the deprecated call, with a width option), Full with an invalid child at first / middle / nested / last position, Full whose children contain Start / End items (an End of its own or of an enclosing master, a Start that is never ended), Full with unknown size, misplaced tags) that the real writer rejects with a non-I/O error in the state after h, s = every sequence of <= 2 further alphabet calls (valid or not) followed by into_inner. Oracle (differential): h+f+s and h+s give the same Ok/Err kind for every call of s, identical destination bytes after each, identical into_inner result and bytes. Plus a size-window sweep: chains of 1-5 open known-size masters, each position in turn with a 1-byte size field, around a payload of every length 80-130 (so that content + the headers of the masters still to be closed crosses the 127-byte point at every alignment), f in {flush, End of the innermost master, a misplaced Full}, s in 6 continuations. Calls the writer accepts are outside the premise. Non-trivial: non-empty h and s.");
    ctx.meta("bounds", &format!("alphabet {} calls + {} failing-only calls, history depth {}, continuation length {}", alpha.len(), failing_only().len(), depth, cont_len));
    ctx.meta("assumptions", "error kinds are compared, not messages || I/O failures of the destination are outside the statement");
    for c in ["rejected:tag-not-allowed-here", "rejected:end-of-non-innermost-master", "rejected:malformed-raw-id", "rejected:unknown-size-on-non-master", "rejected:width-too-small-leaf", "rejected:full-with-invalid-child-or-placement", "rejected:size-not-representable", "rejected:size-window/flush-rejected", "rejected:size-window/end-rejected"] {
        ctx.expect_nonzero(c);
    }
    let e = Explorer { alpha: &alpha, fails: failing_only().into_iter().map(|(k, c)| (k.to_string(), c)).collect(), depth, cont_len, level1: std::cell::Cell::new(0) };
    let mut hist = Vec::new();
    e.explore(ctx, &mut hist);
    size_window_sweep(ctx);
}
