//! C07 — unknown-size masters end where EBML says; same tags as the known-size encoding.

use crate::ctx::Ctx;
use crate::docs::{self, DocParams};
use crate::gen;
use crate::obs::{parse_slice, run_writer, Cfg, Dest, WCall, WOpt};
use crate::refmodel::{flatten, hex, ref_encode, Kind, NItem, Node, SizeEnc};
use crate::spec::{v_refspec, RefSpec, SpecT, ID_TAG, ID_VOID, V};

/// How is each unknown-size master of the document closed? (vacuity classes)
pub fn closing_kinds(doc: &[Node]) -> Vec<&'static str> {
    let mut out = Vec::new();
    // path: stack of (siblings slice, index) from the top level down
    fn rec<'a>(sibs: &'a [Node], stack: &mut Vec<(&'a [Node], usize, bool)>, out: &mut Vec<&'static str>) {
        for (i, n) in sibs.iter().enumerate() {
            if let Kind::Master(ch) = &n.kind {
                let unknown = matches!(n.size, SizeEnc::Unknown(_));
                if unknown {
                    // who closes it?
                    if i + 1 < sibs.len() {
                        out.push("closed_by_sibling");
                    } else {
                        // walk up
                        let mut levels = 0;
                        let mut found = None;
                        for (psibs, pi, punknown) in stack.iter().rev() {
                            levels += 1;
                            if !*punknown {
                                found = Some("closed_by_enclosing_known_size_end");
                                break;
                            }
                            if pi + 1 < psibs.len() {
                                found = Some(if levels == 1 { "closed_by_element_one_level_up" } else { "closed_by_element_two_or_more_levels_up" });
                                break;
                            }
                        }
                        out.push(found.unwrap_or("closed_by_end_of_input"));
                    }
                }
                stack.push((sibs, i, unknown));
                rec(ch, stack, out);
                stack.pop();
            }
        }
    }
    let mut stack = Vec::new();
    rec(doc, &mut stack, &mut out);
    // top-level next sibling is a root element
    out
}

/// Does the document contain an unknown-size master whose declared path has a placeholder (a global master) and
/// that has to be closed by a following element? (known finding D28: the library decides "sibling" by comparing
/// declared paths, which never match for a global master)
fn unknown_global_master_closed_by_element(rs: &RefSpec, doc: &[Node]) -> bool {
    fn rec(rs: &RefSpec, sibs: &[Node], followed: bool) -> bool {
        for (i, n) in sibs.iter().enumerate() {
            if let Kind::Master(ch) = &n.kind {
                let has_follower = followed || i + 1 < sibs.len();
                if matches!(n.size, SizeEnc::Unknown(_)) && rs.is_global(n.id) && has_follower {
                    return true;
                }
                // a follower of an enclosing master only reaches us through unknown-size masters
                let pass = matches!(n.size, SizeEnc::Unknown(_)) && has_follower;
                if rec(rs, ch, pass) {
                    return true;
                }
            }
        }
        false
    }
    rec(rs, doc, false)
}

fn writer_calls(doc: &[Node], out: &mut Vec<WCall>) {
    for n in doc {
        match &n.kind {
            Kind::Master(ch) => {
                let opt = match n.size {
                    SizeEnc::Unknown(_) => WOpt::Unknown,
                    SizeEnc::Width(w) => WOpt::Width(w),
                    SizeEnc::Min => WOpt::Default,
                };
                out.push(WCall::Tag(NItem::Start(n.id), opt));
                writer_calls(ch, out);
                out.push(WCall::Tag(NItem::End(n.id), WOpt::Default));
            }
            Kind::Leaf { val, .. } => out.push(WCall::Tag(NItem::Leaf(n.id, val.clone()), WOpt::Default)),
            Kind::RawLeaf(b) => out.push(WCall::Tag(NItem::Raw(n.id, b.clone()), WOpt::Default)),
        }
    }
}

pub fn run(ctx: &mut Ctx) {
    let rs = v_refspec();
    crate::spec::assert_spec_matches::<V>(&rs);
    let p = DocParams {
        max_nodes: ctx.tier.pick(6, 7),
        globals: vec![ID_TAG, ID_VOID],
        exclude: vec![],
        unknown_subsets: true,
        devs: 0,
        payload_classes: false,
        big_payloads: false,
        noncanonical: false,
        width_devs: true, // alt 1 of a master slot = the 8-byte unknown marker / 8-byte size field
        extras: true,
        all_widths: false,
    };
    ctx.meta("rule", "cases: (tree, subset of masters encoded with unknown size, marker width); trees = every forest over V up to the node bound + the deep spines; all 2^m subsets; encoded by RefEncoder (1- and 8-byte all-ones markers, and for trees of <= 5 elements every marker width 1..8; plus > 64 KiB documents with long headers at every alignment around the buffer boundary) and, independently, by the real TagWriter with write_advanced(unknown). Excluded by construction: a global element as the first element after an unknown-size master's last descendant. Trees of <= 5 elements are also parsed with each master id present, and all of them, buffered (Full items). Trees of <= 4 elements are also read, end-of-stream closing off, from a source that pauses at one tag boundary and resumes (differential against the unpaused read). Every encoding is also parsed with hierarchy problems / oversized children / everything tolerated (a valid document holds nothing to tolerate). Oracle: strict parse == flatten(tree) with RefEncoder offsets (Ends before the closing element), and == the all-known encoding's tags; with unknown ids tolerated, the same for every tree with one element of an id outside the specification put at every position (it is an ordinary child and ends nothing). Non-trivial: encodings where an unknown-size master is closed by something other than its own sibling.");
    ctx.meta("bounds", &format!("forests <= {} elements over V (5 master levels), all subsets, devs <= {}", p.max_nodes, p.devs));
    ctx.meta("assumptions", "payload values irrelevant to closing decisions (default tiny payloads)");
    for c in ["closed_by_sibling", "closed_by_element_one_level_up", "closed_by_element_two_or_more_levels_up", "closed_by_enclosing_known_size_end", "closed_by_end_of_input", "writer_encodings", "buffer_boundary_docs", "unknown_id_element_inside_unknown_size_encodings", "marker_widths_2_to_8", "parses_under_tolerance_switches", "parses_with_buffered_masters", "parses_with_a_pause_at_a_tag_boundary"] {
        ctx.expect_nonzero(c);
    }
    let cfg = Cfg::strict();
    for (i, doc) in docs::buffer_boundary_docs(ctx.tier.pick(24, 64)).into_iter().enumerate() {
        if !ctx.mine(i as u64) {
            continue;
        }
        let d = || format!("buffer-boundary doc=[{}]", docs::doc_short(&rs, &doc));
        if !ctx.enter(&d) {
            continue;
        }
        ctx.count("buffer_boundary_docs", 1);
        let (bytes, lay) = ref_encode(&doc);
        let want = flatten(&doc, &lay);
        let obs = parse_slice::<V>(&bytes, &cfg);
        ctx.transitions += obs.items.len() as u64 + 1;
        if obs.items != want || !obs.clean() {
            ctx.violation("buffer-boundary/differs-from-tree", &d, &format!("expected [{}] observed {}", want.iter().map(|(i, o)| format!("{}@{}", i.short(), o)).collect::<Vec<_>>().join(" "), obs.short()));
        }
        ctx.validated += 1;
        ctx.leave();
    }
    let mut plist = vec![p.clone()];
    if !ctx.quick() {
        // one encoding deviation (8-byte unknown marker / 8-byte size field) on the forests up to 6 elements
        plist.push(DocParams { max_nodes: 6, devs: 1, ..p.clone() });
    }
    sweep::<V>(ctx, &rs, plist, "V");
    // the second macro-derived specification: placeholders in trailing and intermediate position, a global MASTER
    // (0-1)/G that may nest in anything once, and a global leaf (2-3)/H
    let w = crate::spec::w_refspec();
    crate::spec::assert_spec_matches::<crate::spec::W>(&w);
    let pw = DocParams { max_nodes: ctx.tier.pick(5, 6), globals: vec![0x96, 0xa7, ID_VOID], exclude: vec![], unknown_subsets: true, devs: 0, payload_classes: false, big_payloads: false, noncanonical: false, width_devs: false, extras: false, all_widths: false };
    sweep::<crate::spec::W>(ctx, &w, vec![pw], "W");
}

fn sweep<T: SpecT>(ctx: &mut Ctx, rs: &RefSpec, plist: Vec<DocParams>, label: &str) {
    let cfg = Cfg::strict();
    let raw_variants = label == "V";
    for p in plist {
    docs::for_each_doc(ctx, rs, &p, &mut |ctx, doc| {
        if gen::has_ambiguous_global_after_unknown(rs, doc) {
            ctx.count("excluded_ambiguous_global", 1);
            return true;
        }
        let kinds = closing_kinds(doc);
        let d = || format!("{} doc=[{}]", label, docs::doc_short(rs, doc));
        if !ctx.enter(&d) {
            return true;
        }
        for k in &kinds {
            ctx.count(k, 1);
        }
        if kinds.iter().any(|k| *k != "closed_by_sibling") {
            ctx.nontrivial();
        }
        let (bytes, lay) = ref_encode(doc);
        let want = flatten(doc, &lay);
        let obs = parse_slice::<T>(&bytes, &cfg);
        ctx.transitions += obs.items.len() as u64 + 1;
        ctx.outcome(&(obs.items.len(), kinds.len()));
        let d28 = unknown_global_master_closed_by_element(rs, doc);
        if d28 {
            ctx.count("unknown_size_global_master_closed_by_an_element", 1);
        }
        if (obs.items != want || !obs.clean()) && d28 {
            ctx.violation("unknown-size-global-master/not-closed-by-the-following-element", &d, &format!("bytes={} expected [{}] observed {}", hex(&bytes), want.iter().map(|(i, o)| format!("{}@{}", i.short(), o)).collect::<Vec<_>>().join(" "), obs.short()));
        } else if obs.items != want || !obs.clean() {
            let key = format!("ref-encoded/{}", kinds.iter().filter(|k| **k != "closed_by_sibling").next().unwrap_or(&"closed_by_sibling"));
            ctx.violation(&key, &d, &format!("bytes={} expected [{}] observed {}", hex(&bytes), want.iter().map(|(i, o)| format!("{}@{}", i.short(), o)).collect::<Vec<_>>().join(" "), obs.short()));
        }
        // a valid document contains nothing to tolerate: where unknown-size masters end does not depend on the
        // tolerance switches
        if !d28 {
            for allow in [crate::obs::ALLOW_HIER, crate::obs::ALLOW_OVERSIZED, 7u8] {
                let o2 = parse_slice::<T>(&bytes, &cfg.clone().with_allow(allow));
                ctx.transitions += o2.items.len() as u64 + 1;
                ctx.count("parses_under_tolerance_switches", 1);
                if o2.items != want || !o2.clean() {
                    ctx.violation("tolerance-switch-changes-where-masters-end", &d, &format!("allow={} bytes={} expected [{}] observed {}", allow, hex(&bytes), want.iter().map(|(i, o)| format!("{}@{}", i.short(), o)).collect::<Vec<_>>().join(" "), o2.short()));
                    break;
                }
            }
        }
        // buffered masters: an unknown-size master ends at the same place when it (or a master around / inside it) is
        // delivered as one Full item
        if !d28 && gen::count_nodes(doc) <= 5 {
            let mut present: Vec<u64> = Vec::new();
            crate::refmodel::visit(doc, &mut |n, _| {
                if n.is_master() && !present.contains(&n.id) {
                    present.push(n.id);
                }
            }, 0);
            let mut sets: Vec<Vec<u64>> = present.iter().map(|i| vec![*i]).collect();
            if present.len() > 1 {
                sets.push(present.clone());
            }
            for set in sets {
                let o3 = parse_slice::<T>(&bytes, &cfg.clone().with_buffered(&set));
                ctx.transitions += o3.items.len() as u64 + 1;
                ctx.count("parses_with_buffered_masters", 1);
                let want_b = crate::c12::rollup_expect(&want, &set);
                if o3.items != want_b || !o3.clean() {
                    ctx.violation("buffered/differs-from-tree", &d, &format!("buffered={:x?} bytes={} expected [{}] observed {}", set, hex(&bytes), want_b.iter().map(|(i, o)| format!("{}@{}", i.short(), o)).collect::<Vec<_>>().join(" "), o3.short()));
                    break;
                }
            }
        }
        // a source that pauses (Ok(0) until the caller has seen None) at a tag boundary and then goes on, end-of-stream
        // closing off: where unknown-size masters end does not depend on the pause (V only: the pause driver is C04's)
        if raw_variants && !d28 && gen::count_nodes(doc) <= 4 {
            let mut ncfg = cfg.clone();
            ncfg.eof_end = false;
            let reference = parse_slice::<V>(&bytes, &ncfg);
            for l in lay.iter().skip(1) {
                let (o4, seen) = crate::c04::drive_pauses(&bytes, &ncfg, &[l.tag_start], usize::MAX);
                ctx.transitions += o4.items.len() as u64 + 2;
                if seen > 0 {
                    ctx.count("parses_with_a_pause_at_a_tag_boundary", 1);
                }
                if o4 != reference {
                    ctx.violation("pause-at-a-tag-boundary-changes-where-masters-end", &d, &format!("pause at {} bytes={} without pause {} | with pause {}", l.tag_start, hex(&bytes), reference.short(), o4.short()));
                    break;
                }
            }
        }
        // the same tree through the real writer (unknown-size starts via write_advanced)
        let mut calls = Vec::new();
        writer_calls(doc, &mut calls);
        let run = run_writer::<T>(&calls, Dest::default());
        ctx.transitions += calls.len() as u64 + 1;
        let accepted = run.results.iter().all(|r| r.is_ok()) && run.fin.is_ok();
        if accepted {
            ctx.count("writer_encodings", 1);
            let obs2 = parse_slice::<T>(&run.out, &cfg);
            ctx.transitions += obs2.items.len() as u64 + 1;
            let want_items: Vec<NItem> = want.iter().map(|x| x.0.clone()).collect();
            if (obs2.item_list() != want_items || !obs2.clean()) && d28 {
                ctx.violation("unknown-size-global-master/not-closed-by-the-following-element", &d, &format!("writer output {} reads as {}", hex(&run.out), obs2.short()));
            } else if obs2.item_list() != want_items || !obs2.clean() {
                ctx.violation("writer-encoded/tags-differ", &d, &format!("writer output {} reads as {}", hex(&run.out), obs2.short()));
            }
        } else {
            ctx.count("writer_rejected_valid_document", 1);
        }
        ctx.validated += 1;
        ctx.leave();
        if raw_variants && !kinds.is_empty() {
            tolerated_unknown_ids::<T>(ctx, rs, doc, label);
        }
        // the reserved all-ones value in every width 2..8 of the size field (the main sweep uses 1 byte, the writer 8)
        if !kinds.is_empty() && gen::count_nodes(doc) <= 5 {
            for w in 2..=8u8 {
                let mut dw = doc.clone();
                crate::refmodel::visit_mut(&mut dw, &mut |n| {
                    if let SizeEnc::Unknown(_) = n.size {
                        n.size = SizeEnc::Unknown(w);
                    }
                });
                let d = || format!("{} doc=[{}] unknown-size markers {} bytes wide", label, docs::doc_short(rs, &dw), w);
                if !ctx.enter(&d) {
                    continue;
                }
                ctx.count("marker_widths_2_to_8", 1);
                let (bytes, lay) = ref_encode(&dw);
                let want = flatten(&dw, &lay);
                let obs = parse_slice::<T>(&bytes, &cfg);
                ctx.transitions += obs.items.len() as u64 + 1;
                if (obs.items != want || !obs.clean()) && !d28 {
                    ctx.violation("marker-width/differs-from-tree", &d, &format!("bytes={} expected [{}] observed {}", hex(&bytes), want.iter().map(|(i, o)| format!("{}@{}", i.short(), o)).collect::<Vec<_>>().join(" "), obs.short()));
                }
                ctx.validated += 1;
                ctx.leave();
            }
        }
        !ctx.should_stop()
    });
    }
}

/// every way of putting one element with an id outside the specification into the tree (not directly after an
/// unknown-size master, where it cannot be told from a child of that master)
fn raw_insertions(doc: &[Node]) -> Vec<Vec<Node>> {
    fn count_lists(doc: &[Node]) -> usize {
        1 + doc.iter().map(|n| if let Kind::Master(ch) = &n.kind { count_lists(ch) } else { 0 }).sum::<usize>()
    }
    fn insert(doc: &mut Vec<Node>, list: &mut usize, pos: usize, top: bool) -> Option<bool> {
        // returns Some(true) when inserted, Some(false) when the position is excluded, None when not in this subtree
        if *list == 0 {
            if pos > doc.len() || (top && pos == 0) {
                return Some(false);
            }
            if pos > 0 && doc[pos - 1].is_master() && matches!(doc[pos - 1].size, SizeEnc::Unknown(_)) {
                return Some(false);
            }
            doc.insert(pos, Node { id: 0xf2, kind: Kind::RawLeaf(vec![0x42]), size: SizeEnc::Min });
            return Some(true);
        }
        *list -= 1;
        for n in doc.iter_mut() {
            if let Kind::Master(ch) = &mut n.kind {
                if let Some(r) = insert(ch, list, pos, false) {
                    return Some(r);
                }
            }
        }
        None
    }
    let mut out = Vec::new();
    for l in 0..count_lists(doc) {
        for pos in 0..8 {
            let mut d = doc.to_vec();
            let mut li = l;
            if insert(&mut d, &mut li, pos, true) == Some(true) {
                out.push(d);
            }
        }
    }
    out
}

/// unknown ids tolerated: an element with an id outside the specification is an ordinary child wherever it stands and
/// never ends an unknown-size master
fn tolerated_unknown_ids<T: SpecT>(ctx: &mut Ctx, rs: &RefSpec, doc: &[Node], label: &str) {
    let cfg = Cfg::strict().with_allow(crate::obs::ALLOW_IDS);
    for v in raw_insertions(doc) {
        let d = || format!("{} unknown ids tolerated doc=[{}]", label, docs::doc_short(rs, &v));
        if !ctx.enter(&d) {
            continue;
        }
        ctx.nontrivial();
        ctx.count("unknown_id_element_inside_unknown_size_encodings", 1);
        let (bytes, lay) = ref_encode(&v);
        let want = flatten(&v, &lay);
        let obs = parse_slice::<T>(&bytes, &cfg);
        ctx.transitions += obs.items.len() as u64 + 1;
        if obs.items != want || !obs.clean() {
            ctx.violation("unknown-id-tolerated/differs-from-tree", &d, &format!("bytes={} expected [{}] observed {}", hex(&bytes), want.iter().map(|(i, o)| format!("{}@{}", i.short(), o)).collect::<Vec<_>>().join(" "), obs.short()));
        }
        ctx.validated += 1;
        ctx.leave();
    }
}
