//! C06 — strict mode emits only well-nested, hierarchy-valid, size-contained sequences.

use crate::ctx::Ctx;
use crate::docs::{self, DocParams, MutKind};
use crate::gen::{self, SIGMA};
use crate::obs::{parse_slice, Cfg, MaxSize, Obs, Term};
use crate::refmodel::{decode_header, hex, ref_encode, NItem};
use crate::spec::{v_refspec, w_refspec, RefSpec, SpecT, Ty, PP, ID_TAG, ID_VOID, V, W};

/// role-colliding bytes for W: every 1-byte id of W (each is also a 1-byte size), first bytes of the 2-/3-byte ids,
/// the global ids, small sizes, the unknown-size marker, an invalid first byte
pub const SIGMA_W: [u8; 18] = [0x00, 0x40, 0x20, 0x80, 0x81, 0x82, 0x83, 0x91, 0x92, 0x93, 0x94, 0x95, 0x96, 0xa1, 0xa4, 0xa7, 0xec, 0xff];

struct Open {
    id: u64,
    /// None for implied ancestors
    start: Option<usize>,
    /// byte range of the content for known-size masters
    range: Option<(usize, usize)>,
    /// the root of a buffered (Full) master: its children carry no offsets
    full: bool,
}

/// A Full item is the Start, the children (no offsets of their own) and the End of a buffered master.
fn expand(items: &[(NItem, usize)]) -> Vec<(NItem, Option<usize>, bool)> {
    fn rec(i: &NItem, off: Option<usize>, out: &mut Vec<(NItem, Option<usize>, bool)>) {
        match i {
            NItem::Full(id, ch) => {
                out.push((NItem::Start(*id), off, true));
                for c in ch {
                    rec(c, None, out);
                }
                out.push((NItem::End(*id), None, false));
            }
            other => out.push((other.clone(), off, false)),
        }
    }
    let mut out = Vec::new();
    for (i, o) in items {
        rec(i, Some(*o), &mut out);
    }
    out
}

/// NestingChecker: replays the Ok items of a strict parse against the statement of C06.
pub fn nesting_check(input: &[u8], obs: &Obs, rs: &RefSpec) -> Result<(), (String, String)> {
    let mut chain: Vec<Open> = Vec::new();
    let mut determined = false;
    // end of the previous non-End item (parse position)
    // (None: unknown, after a buffered master of unknown size)
    let mut cursor: Option<usize> = Some(0);
    // once an early End (before its range is exhausted) was seen, only Ends may follow and the parse must end cleanly at end of input
    let mut early_end_seen = false;
    let expanded = expand(&obs.items);
    for (n, (item, off, full_root)) in expanded.iter().enumerate() {
        let (off, full_root) = (*off, *full_root);
        match item {
            NItem::Raw(id, _) => return Err(("raw-tag-in-strict-mode".into(), format!("item #{} raw tag {:x}", n, id))),
            NItem::Full(..) => unreachable!(),
            NItem::End(id) => {
                if !determined && chain.is_empty() {
                    return Err(("end/before-any-start".into(), format!("item #{} End({:x}) before the position in the document is known", n, id)));
                }
                match chain.pop() {
                    None => return Err(("end/nothing-open".into(), format!("item #{} End({:x}) with no master open", n, id))),
                    Some(o) => {
                        if o.id != *id {
                            return Err(("end/not-innermost".into(), format!("item #{} End({:x}) but the innermost open master is {:x}", n, id, o.id)));
                        }
                        if o.full {
                            // the whole buffered master has been consumed
                            cursor = o.range.map(|r| r.1);
                        } else if let (Some((_, e)), Some(c)) = (o.range, cursor) {
                            if c < e {
                                early_end_seen = true;
                            }
                        }
                    }
                }
            }
            NItem::Start(id) | NItem::Leaf(id, _) => {
                if early_end_seen {
                    return Err(("known-size-end/emitted-before-range-exhausted".into(), format!("item #{} {} follows the End of a known-size master whose byte range was not exhausted", n, item.short())));
                }
                let Some(ty) = rs.ty(*id) else {
                    return Err(("unknown-id-in-strict-mode".into(), format!("item #{} id {:x}", n, id)));
                };
                let global = rs.is_global(*id);
                if !determined && !global {
                    // implied ancestors of the first non-global element, below any global masters that are already open
                    let mut implied: Vec<Open> = Vec::new();
                    for p in rs.path(*id) {
                        if let PP::Id(a) = p {
                            implied.push(Open { id: *a, start: None, range: None, full: false });
                        }
                    }
                    implied.append(&mut chain);
                    chain = implied;
                    determined = true;
                }
                if determined {
                    let ids: Vec<u64> = chain.iter().map(|o| o.id).collect();
                    if !rs.allowed(*id, &ids) {
                        return Err((
                            format!("hierarchy/{}-not-allowed-under-open-chain", if global { "global" } else { "element" }),
                            format!("item #{} {} emitted under open chain [{}]", n, item.short(), ids.iter().map(|i| rs.name(*i)).collect::<Vec<_>>().join("/")),
                        ));
                    }
                }
                let Some(off) = off else {
                    // a child of a buffered master: structure only
                    if ty == Ty::Master {
                        if !matches!(item, NItem::Start(_)) {
                            return Err(("machinery/master-leaf".into(), String::new()));
                        }
                        chain.push(Open { id: *id, start: None, range: None, full: false });
                    }
                    continue;
                };
                // a known-size master whose range is exhausted must have been closed before this item
                for o in &chain {
                    if let Some((_, e)) = o.range {
                        if off >= e {
                            return Err(("known-size-end/late".into(), format!("item #{} {} starts at {} but known-size master {:x} ended at {}", n, item.short(), off, o.id, e)));
                        }
                    }
                }
                // extent
                let Some(h) = decode_header(&input[off.min(input.len())..]) else {
                    return Err(("machinery-or-c03/no-header-at-offset".into(), format!("item #{} {} at {}", n, item.short(), off)));
                };
                let data_start = off + h.id_len + h.size_len;
                let ext_end = match h.size {
                    Some(s) => data_start + s as usize,
                    None => data_start, // unknown size: at least its header must be contained
                };
                for o in &chain {
                    if let Some((_, e)) = o.range {
                        if ext_end > e {
                            return Err((
                                format!("extent/{}-overruns-known-size-ancestor", if h.size.is_none() { "unknown-size-child-header" } else { "child" }),
                                format!("item #{} {} occupies {}..{} but known-size master {:x} ends at {}", n, item.short(), off, ext_end, o.id, e),
                            ));
                        }
                    }
                }
                if ty == Ty::Master {
                    if !matches!(item, NItem::Start(_)) {
                        return Err(("machinery/master-leaf".into(), String::new()));
                    }
                    chain.push(Open { id: *id, start: Some(off), range: h.size.map(|s| (data_start, data_start + s as usize)), full: full_root });
                    cursor = Some(data_start);
                } else {
                    cursor = Some(ext_end);
                }
            }
        }
    }
    match &obs.term {
        Term::Done => {
            if !chain.is_empty() {
                return Err(("eof/open-master-without-end".into(), format!("parse ended cleanly with [{}] still open", chain.iter().map(|o| rs.name(o.id)).collect::<Vec<_>>().join("/"))));
            }
            if early_end_seen && cursor.map(|c| c < input.len()).unwrap_or(false) {
                // Ends before range exhaustion are only legitimate when the input ended
                return Err(("known-size-end/emitted-before-range-exhausted".into(), format!("clean end at parse position {:?} of {} input bytes", cursor, input.len())));
            }
            Ok(())
        }
        Term::Err(_) => {
            if early_end_seen {
                return Err(("known-size-end/emitted-before-range-exhausted".into(), "an End of a known-size master preceded an error although its range was not exhausted".into()));
            }
            Ok(())
        }
        Term::Panic(p) => Err(("panic".into(), p.clone())),
        Term::Budget => Err(("no-termination".into(), "item budget exhausted".into())),
    }
}

/// buffered sets for a document: each master id present alone, and all of them
fn buffered_sets(doc: &[crate::refmodel::Node]) -> Vec<Vec<u64>> {
    let mut present: Vec<u64> = Vec::new();
    crate::refmodel::visit(doc, &mut |n, _| {
        if n.is_master() && !present.contains(&n.id) {
            present.push(n.id);
        }
    }, 0);
    let mut out: Vec<Vec<u64>> = present.iter().map(|i| vec![*i]).collect();
    if present.len() > 1 {
        out.push(present);
    }
    out
}

fn run_one<T: SpecT>(ctx: &mut Ctx, rs: &RefSpec, input: &[u8], cfg: &Cfg, origin: &str) {
    let d = || format!("{} input={} buffered=[{}] cap={:?}", origin, hex(input), cfg.buffered.iter().map(|x| format!("{:x}", x)).collect::<Vec<_>>().join(","), cfg.cap);
    if !ctx.enter(&d) {
        return;
    }
    let obs = parse_slice::<T>(input, cfg);
    if !cfg.buffered.is_empty() {
        ctx.count("parses_with_buffered_masters", 1);
    }
    ctx.transitions += obs.items.len() as u64 + 1;
    // non-trivial: at least two levels open at some point
    let mut depth = 0i32;
    let mut maxd = 0;
    for (i, _, _) in &expand(&obs.items) {
        match i {
            NItem::Start(_) => {
                depth += 1;
                maxd = maxd.max(depth);
            }
            NItem::End(_) => depth -= 1,
            _ => {}
        }
    }
    if maxd >= 2 {
        ctx.nontrivial();
    }
    if depth < 0 || obs.items.first().map(|x| !rs.is_root(x.0.id())).unwrap_or(false) {
        ctx.count("mid_document_starts", 1);
    }
    ctx.outcome(&(obs.items.len(), std::mem::discriminant(&obs.term), maxd));
    if let Err((k, det)) = nesting_check(input, &obs, rs) {
        ctx.violation(&k, &d, &format!("{} | observed {}", det, obs.short()));
    }
    ctx.validated += 1;
    ctx.leave();
}

pub fn run(ctx: &mut Ctx) {
    let rs = v_refspec();
    crate::spec::assert_spec_matches::<V>(&rs);
    let n = ctx.tier.pick(6, 7);
    let doc_nodes = ctx.tier.pick(4, 5);
    ctx.meta("rule", "cases: byte streams parsed by the strict iterator from a slice; streams = every string over Σ up to length n, every document of T∘E (all known/unknown-size mixes, deep spines) and every single mutation (byte replaced by each Σ byte, byte deleted, truncation, every mid-document suffix at an element boundary), and documents longer than the 64 KiB buffer with long headers around the buffer boundary, whole and cut near the boundary, documents with a 20-45-byte payload inside open known-size masters read with capacities {0,16,17,24,32,default}; and over the second derived specification W (placeholder paths, a global master, a bounded global leaf): every string over Σ_W up to length n-1 and every document with all single mutations; every unmutated document of V and W additionally with each master id present, and all of them, buffered (a Full item counts as its Start, children and End; its children have no offsets, so only the structural rules apply inside it). Oracle: NestingChecker replays the Ok items: End matches innermost open Start or the next implied ancestor; ids known; ref_path_match(path, open chain) once the first non-global element fixed the position; element extents (header decoded by RefCodec at the reported offset) inside every enclosing known-size master; known-size End neither late nor early (early only at end of input); all masters closed at a clean end. Non-trivial: >= 2 levels open at some point.");
    ctx.meta("bounds", &format!("Σ* length <= {}; documents <= {} elements (+ spines), all single mutations; W: Σ_W* length <= {}, documents <= {} elements", n, doc_nodes, ctx.tier.pick(5, 6), ctx.tier.pick(4, 5)));
    ctx.meta("assumptions", "64 KiB tag-size limit on the mutation corpus (mutated size fields otherwise allocate gigabytes legitimately)");
    ctx.expect_nonzero("mid_document_starts");
    ctx.expect_nonzero("buffer_boundary_docs");
    ctx.expect_nonzero("w_strings");
    ctx.expect_nonzero("w_docs");
    ctx.expect_nonzero("grown_buffer_docs");
    ctx.expect_nonzero("parses_with_buffered_masters");
    let cfg = Cfg::strict();
    let mut mcfg = Cfg::strict();
    mcfg.max_size = MaxSize::Limit(1 << 16);
    let (shard, nshards) = (ctx.shard, ctx.nshards);
    gen::strings(&SIGMA, n, shard, nshards, &mut |s| {
        run_one::<V>(ctx, &rs, s, &cfg, "sigma");
        !ctx.should_stop()
    });
    for (i, doc) in docs::buffer_boundary_docs(ctx.tier.pick(24, 64)).into_iter().enumerate() {
        if ctx.mine(i as u64) {
            let (bytes, _) = ref_encode(&doc);
            ctx.count("buffer_boundary_docs", 1);
            run_one::<V>(ctx, &rs, &bytes, &cfg, "buffer-boundary-doc");
            // and cut inside / right after the long headers
            for cut in [bytes.len() - 1, bytes.len() - 9, 65536, 65537, 65540, 65550] {
                if cut < bytes.len() {
                    run_one::<V>(ctx, &rs, &bytes[..cut], &cfg, "buffer-boundary-doc-truncated");
                }
            }
        }
    }
    // a payload larger than the initial capacity inside open known-size masters (the buffer grows mid-document)
    for (i, doc) in docs::grown_buffer_docs().into_iter().enumerate() {
        if !ctx.mine(i as u64) {
            continue;
        }
        let (bytes, _) = ref_encode(&doc);
        if docs::doc_has_raw(&doc) {
            continue; // strict mode
        }
        for cap in [Some(0usize), Some(16), Some(17), Some(24), Some(32), None] {
            ctx.count("grown_buffer_docs", 1);
            run_one::<V>(ctx, &rs, &bytes, &cfg.clone().with_cap(cap), "grown-buffer-doc");
        }
    }
    let p = DocParams { max_nodes: doc_nodes, globals: vec![ID_TAG, ID_VOID], exclude: vec![], unknown_subsets: true, devs: 1, payload_classes: false, big_payloads: false, noncanonical: false, width_devs: true, extras: true, all_widths: false };
    let kinds = [MutKind::Replace, MutKind::Delete, MutKind::Truncate, MutKind::Suffix];
    docs::for_each_doc(ctx, &rs, &p, &mut |ctx, doc| {
        let (bytes, lay) = ref_encode(doc);
        run_one::<V>(ctx, &rs, &bytes, &cfg, "doc");
        for set in buffered_sets(doc) {
            run_one::<V>(ctx, &rs, &bytes, &cfg.clone().with_buffered(&set), "doc");
        }
        let bounds: Vec<usize> = lay.iter().map(|l| l.tag_start).collect();
        docs::for_each_mutation(&bytes, &bounds, &SIGMA, &kinds, &mut |m, _k, _pos| {
            run_one::<V>(ctx, &rs, m, &mcfg, "mut");
            !ctx.should_stop()
        });
        !ctx.should_stop()
    });
    // the second macro-derived specification W: placeholders in trailing and intermediate position, a global master
    // that may nest in anything (once), a bounded global leaf
    let w = w_refspec();
    crate::spec::assert_spec_matches::<W>(&w);
    let nw = ctx.tier.pick(5, 6);
    gen::strings(&SIGMA_W, nw, shard, nshards, &mut |s| {
        ctx.count("w_strings", 1);
        run_one::<W>(ctx, &w, s, &cfg, "W-sigma");
        !ctx.should_stop()
    });
    let pw = DocParams { max_nodes: ctx.tier.pick(4, 5), globals: vec![0x96, 0xa7, ID_VOID], exclude: vec![], unknown_subsets: true, devs: 0, payload_classes: false, big_payloads: false, noncanonical: false, width_devs: false, extras: false, all_widths: false };
    docs::for_each_doc(ctx, &w, &pw, &mut |ctx, doc| {
        let (bytes, lay) = ref_encode(doc);
        ctx.count("w_docs", 1);
        run_one::<W>(ctx, &w, &bytes, &cfg, "W-doc");
        for set in buffered_sets(doc) {
            run_one::<W>(ctx, &w, &bytes, &cfg.clone().with_buffered(&set), "W-doc");
        }
        let bounds: Vec<usize> = lay.iter().map(|l| l.tag_start).collect();
        docs::for_each_mutation(&bytes, &bounds, &SIGMA_W, &kinds, &mut |m, _k, _pos| {
            run_one::<W>(ctx, &w, m, &mcfg, "W-mut");
            !ctx.should_stop()
        });
        !ctx.should_stop()
    });
}
