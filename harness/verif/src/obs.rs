//! Driving the real library and normalising what it returns.

use std::io::{self, Read, Write};
use std::panic::{catch_unwind, AssertUnwindSafe};

use ebml_iterable::error::{CorruptedFileError, TagIteratorError, TagWriterError};
use ebml_iterable::iterator::AllowableErrors;
use ebml_iterable::specs::Master;
use ebml_iterable::{TagIterator, TagWriter, WriteOptions};

use crate::refmodel::{NItem, Val};
use crate::spec::{SpecT, Ty};

// ---------------------------------------------------------------------------------------------
// item conversion

pub fn normalise<T: SpecT>(t: &T) -> NItem {
    let id = t.get_id();
    match T::get_tag_data_type(id) {
        None => NItem::Raw(id, t.as_binary().map(|b| b.to_vec()).unwrap_or_default()),
        Some(ty) => match Ty::from_lib(ty) {
            Ty::Master => match t.as_master() {
                Some(Master::Start) => NItem::Start(id),
                Some(Master::End) => NItem::End(id),
                Some(Master::Full(ch)) => NItem::Full(id, ch.iter().map(normalise).collect()),
                None => panic!("machinery: master item without master accessor"),
            },
            Ty::U => NItem::Leaf(id, Val::U(*t.as_unsigned_int().expect("machinery: accessor"))),
            Ty::I => NItem::Leaf(id, Val::I(*t.as_signed_int().expect("machinery: accessor"))),
            Ty::F => NItem::Leaf(id, Val::F(t.as_float().expect("machinery: accessor").to_bits())),
            Ty::S => NItem::Leaf(id, Val::S(t.as_utf8().expect("machinery: accessor").to_string())),
            Ty::B => NItem::Leaf(id, Val::B(t.as_binary().expect("machinery: accessor").to_vec())),
        },
    }
}

pub fn denormalise<T: SpecT>(n: &NItem) -> T {
    match n {
        NItem::Start(id) => T::get_master_tag(*id, Master::Start).expect("machinery: not a master"),
        NItem::End(id) => T::get_master_tag(*id, Master::End).expect("machinery: not a master"),
        NItem::Full(id, ch) => T::get_master_tag(*id, Master::Full(ch.iter().map(denormalise).collect())).expect("machinery: not a master"),
        NItem::Leaf(id, v) => match v {
            Val::U(x) => T::get_unsigned_int_tag(*id, *x),
            Val::I(x) => T::get_signed_int_tag(*id, *x),
            Val::F(x) => T::get_float_tag(*id, f64::from_bits(*x)),
            Val::S(x) => T::get_utf8_tag(*id, x.clone()),
            Val::B(x) => T::get_binary_tag(*id, x),
        }
        .expect("machinery: leaf type mismatch"),
        NItem::Raw(id, b) => T::get_raw_tag(*id, b),
    }
}

// ---------------------------------------------------------------------------------------------
// errors

#[derive(Clone, Debug, PartialEq, Eq, Hash)]
pub enum NErr {
    InvalidTagId { pos: usize, id: u64 },
    InvalidTagData { pos: usize, id: u64 },
    Hierarchy { found: u64, parent: Option<u64> },
    OversizedChild { pos: usize, id: u64, size: usize },
    InvalidTagSize { pos: usize, id: u64, size: usize },
    Eof { tag_start: usize, id: Option<u64>, size: Option<usize>, partial: Option<Vec<u8>> },
    TagData { id: u64, problem: String },
    Read { kind: io::ErrorKind, msg: String },
}

impl NErr {
    pub fn kind(&self) -> &'static str {
        match self {
            NErr::InvalidTagId { .. } => "InvalidTagId",
            NErr::InvalidTagData { .. } => "InvalidTagData",
            NErr::Hierarchy { .. } => "HierarchyError",
            NErr::OversizedChild { .. } => "OversizedChildElement",
            NErr::InvalidTagSize { .. } => "InvalidTagSize",
            NErr::Eof { .. } => "UnexpectedEOF",
            NErr::TagData { .. } => "CorruptedTagData",
            NErr::Read { .. } => "ReadError",
        }
    }
    pub fn short(&self) -> String {
        match self {
            NErr::Eof { tag_start, id, size, partial } => format!(
                "Eof{{start:{},id:{:x?},size:{:?},partial:{}}}",
                tag_start,
                id,
                size,
                match partial {
                    None => "None".to_string(),
                    Some(p) => format!("[{}]", crate::refmodel::hex(p)),
                }
            ),
            other => format!("{:x?}", other),
        }
    }
}

pub fn norm_err(e: &TagIteratorError) -> NErr {
    match e {
        TagIteratorError::CorruptedFileData(c) => match c {
            CorruptedFileError::InvalidTagId { position, tag_id } => NErr::InvalidTagId { pos: *position, id: *tag_id },
            CorruptedFileError::InvalidTagData { position, tag_id } => NErr::InvalidTagData { pos: *position, id: *tag_id },
            CorruptedFileError::HierarchyError { found_tag_id, current_parent_id } => NErr::Hierarchy { found: *found_tag_id, parent: *current_parent_id },
            CorruptedFileError::OversizedChildElement { position, tag_id, size } => NErr::OversizedChild { pos: *position, id: *tag_id, size: *size },
            CorruptedFileError::InvalidTagSize { position, tag_id, size } => NErr::InvalidTagSize { pos: *position, id: *tag_id, size: *size },
        },
        TagIteratorError::UnexpectedEOF { tag_start, tag_id, tag_size, partial_data } => {
            NErr::Eof { tag_start: *tag_start, id: *tag_id, size: *tag_size, partial: partial_data.clone() }
        }
        TagIteratorError::CorruptedTagData { tag_id, problem } => {
            let mut p = format!("{:?}", problem);
            p.truncate(60);
            NErr::TagData { id: *tag_id, problem: p }
        }
        TagIteratorError::ReadError { source } => NErr::Read { kind: source.kind(), msg: source.to_string() },
    }
}

// ---------------------------------------------------------------------------------------------
// scripted sources

#[derive(Clone, Copy, Debug, PartialEq, Eq, Hash)]
pub enum Step {
    /// as much as fits
    Full,
    /// at most m bytes
    Max(usize),
    /// Ok(0) although data remains (temporary end of file)
    Zero,
    /// Err(Other, "injected-<n>")
    Fail(u8),
}

pub struct Script<'a> {
    pub data: &'a [u8],
    pub pos: usize,
    pub steps: &'a [Step],
    pub step_i: usize,
    pub reads: usize,
    pub max_request: usize,
    pub reads_after_end: usize,
}

impl<'a> Script<'a> {
    pub fn new(data: &'a [u8], steps: &'a [Step]) -> Self {
        Script { data, pos: 0, steps, step_i: 0, reads: 0, max_request: 0, reads_after_end: 0 }
    }
    pub fn exhausted(&self) -> bool {
        self.pos >= self.data.len()
    }
}

pub fn injected_msg(n: u8) -> String {
    format!("injected-{}", n)
}

impl<'a> Read for Script<'a> {
    fn read(&mut self, buf: &mut [u8]) -> io::Result<usize> {
        self.reads += 1;
        self.max_request = self.max_request.max(buf.len());
        if buf.is_empty() {
            // a zero-length request says nothing about the source; do not consume a step
            return Ok(0);
        }
        let step = if self.step_i < self.steps.len() { self.steps[self.step_i] } else { Step::Full };
        self.step_i += 1;
        let remaining = self.data.len() - self.pos;
        if remaining == 0 {
            if let Step::Fail(n) = step {
                return Err(io::Error::new(io::ErrorKind::Other, injected_msg(n)));
            }
            self.reads_after_end += 1;
            return Ok(0);
        }
        let n = match step {
            Step::Full => remaining.min(buf.len()),
            Step::Max(m) => remaining.min(buf.len()).min(m.max(1)),
            Step::Zero => 0,
            Step::Fail(n) => return Err(io::Error::new(io::ErrorKind::Other, injected_msg(n))),
        };
        buf[..n].copy_from_slice(&self.data[self.pos..self.pos + n]);
        self.pos += n;
        Ok(n)
    }
}

// ---------------------------------------------------------------------------------------------
// reader configuration and runs

pub const ALLOW_IDS: u8 = 1;
pub const ALLOW_HIER: u8 = 2;
pub const ALLOW_OVERSIZED: u8 = 4;

#[derive(Clone, Copy, Debug, PartialEq, Eq, Hash)]
pub enum MaxSize {
    Default,
    Unlimited,
    Limit(usize),
}

#[derive(Clone, Debug, PartialEq, Eq, Hash)]
pub struct Cfg {
    pub allow: u8,
    pub buffered: Vec<u64>,
    pub cap: Option<usize>,
    pub max_size: MaxSize,
    pub eof_end: bool,
}

impl Cfg {
    pub fn strict() -> Cfg {
        Cfg { allow: 0, buffered: vec![], cap: None, max_size: MaxSize::Default, eof_end: true }
    }
    pub fn with_allow(mut self, a: u8) -> Cfg {
        self.allow = a;
        self
    }
    pub fn with_cap(mut self, c: Option<usize>) -> Cfg {
        self.cap = c;
        self
    }
    pub fn with_buffered(mut self, b: &[u64]) -> Cfg {
        self.buffered = b.to_vec();
        self
    }
    pub fn short(&self) -> String {
        format!(
            "allow={} buf=[{}] cap={:?} max={:?} eof_end={}",
            self.allow,
            self.buffered.iter().map(|x| format!("{:x}", x)).collect::<Vec<_>>().join(","),
            self.cap,
            self.max_size,
            self.eof_end
        )
    }
}

pub fn allow_list(allow: u8) -> Vec<AllowableErrors> {
    let mut v = Vec::new();
    if allow & ALLOW_IDS != 0 {
        v.push(AllowableErrors::InvalidTagIds);
    }
    if allow & ALLOW_HIER != 0 {
        v.push(AllowableErrors::HierarchyProblems);
    }
    if allow & ALLOW_OVERSIZED != 0 {
        v.push(AllowableErrors::OversizedTags);
    }
    v
}

/// The same configuration reached through an earlier, different tolerance setting: allow_errors(earlier) and then
/// allow_errors(cfg.allow) (the last call is made even for the empty set).
pub fn parse_slice_reconfigured<T: SpecT>(bytes: &[u8], cfg: &Cfg, earlier: u8) -> Obs {
    let mut base = cfg.clone();
    base.allow = 0;
    let mut it: TagIterator<&[u8], T> = make_iter(bytes, &base);
    it.allow_errors(&allow_list(earlier));
    it.allow_errors(&allow_list(cfg.allow));
    drive(&mut it, budget_for(bytes.len()))
}

pub fn make_iter<R: Read, T: SpecT>(src: R, cfg: &Cfg) -> TagIterator<R, T> {
    let buffered: Vec<T> = cfg.buffered.iter().map(|id| T::get_master_tag(*id, Master::Start).expect("machinery: buffered id not a master")).collect();
    let mut it = match cfg.cap {
        None => TagIterator::new(src, &buffered),
        Some(c) => TagIterator::with_capacity(src, &buffered, c),
    };
    if cfg.allow != 0 {
        it.allow_errors(&allow_list(cfg.allow));
    }
    match cfg.max_size {
        MaxSize::Default => {}
        MaxSize::Unlimited => it.set_max_allowable_tag_size(None),
        MaxSize::Limit(n) => it.set_max_allowable_tag_size(Some(n)),
    }
    if !cfg.eof_end {
        it.emit_master_end_when_eof(false);
    }
    it
}

#[derive(Clone, Debug, PartialEq, Eq, Hash)]
pub enum Term {
    /// next() returned None
    Done,
    Err(NErr),
    Panic(String),
    /// item budget exhausted (the harness never loops unboundedly)
    Budget,
}

impl Term {
    pub fn short(&self) -> String {
        match self {
            Term::Done => "None".into(),
            Term::Err(e) => format!("Err({})", e.short()),
            Term::Panic(m) => format!("PANIC({})", m),
            Term::Budget => "BUDGET".into(),
        }
    }
}

#[derive(Clone, Debug, PartialEq, Eq, Hash)]
pub struct Obs {
    pub items: Vec<(NItem, usize)>,
    pub term: Term,
}

impl Obs {
    pub fn short(&self) -> String {
        format!("[{}] -> {}", self.items.iter().map(|(i, o)| format!("{}@{}", i.short(), o)).collect::<Vec<_>>().join(" "), self.term.short())
    }
    pub fn item_list(&self) -> Vec<NItem> {
        self.items.iter().map(|x| x.0.clone()).collect()
    }
    pub fn clean(&self) -> bool {
        self.term == Term::Done
    }
}

pub use crate::ctx::panic_msg;

/// call next() once, catching panics
pub fn step_next<R: Read, T: SpecT>(it: &mut TagIterator<R, T>) -> Result<Option<Result<(NItem, usize), NErr>>, String> {
    let r = catch_unwind(AssertUnwindSafe(|| it.next()));
    match r {
        Err(p) => Err(panic_msg(p)),
        Ok(None) => Ok(None),
        Ok(Some(Ok(t))) => {
            let off = it.last_emitted_tag_offset();
            Ok(Some(Ok((normalise(&t), off))))
        }
        Ok(Some(Err(e))) => Ok(Some(Err(norm_err(&e)))),
    }
}

/// Run the iterator to its first None / error / panic, with an item budget.
pub fn drive<R: Read, T: SpecT>(it: &mut TagIterator<R, T>, budget: usize) -> Obs {
    let mut items = Vec::new();
    loop {
        if items.len() >= budget {
            return Obs { items, term: Term::Budget };
        }
        match step_next(it) {
            Err(p) => return Obs { items, term: Term::Panic(p) },
            Ok(None) => return Obs { items, term: Term::Done },
            Ok(Some(Ok(x))) => items.push(x),
            Ok(Some(Err(e))) => return Obs { items, term: Term::Err(e) },
        }
    }
}

pub fn budget_for(len: usize) -> usize {
    2 * len + 64
}

/// parse from a slice (the reference schedule: everything available at once)
pub fn parse_slice<T: SpecT>(bytes: &[u8], cfg: &Cfg) -> Obs {
    let mut it: TagIterator<&[u8], T> = make_iter(bytes, cfg);
    drive(&mut it, budget_for(bytes.len()))
}

pub fn parse_script<T: SpecT>(bytes: &[u8], cfg: &Cfg, steps: &[Step]) -> (Obs, usize, usize) {
    let src = Script::new(bytes, steps);
    let mut it: TagIterator<Script, T> = make_iter(src, cfg);
    let obs = drive(&mut it, budget_for(bytes.len()));
    let s = it.get_ref();
    (obs, s.reads, s.pos)
}

// ---------------------------------------------------------------------------------------------
// writer side

#[derive(Clone, Debug, PartialEq, Eq, Hash)]
pub enum WOpt {
    Default,
    Width(u8),
    Unknown,
    /// the deprecated `write_unknown_size`
    UnknownDeprecated,
}

#[derive(Clone, Debug, PartialEq, Eq, Hash)]
pub enum WCall {
    Tag(NItem, WOpt),
    Raw(u64, Vec<u8>),
    Flush,
}

impl WCall {
    pub fn short(&self) -> String {
        match self {
            WCall::Tag(t, o) => match o {
                WOpt::Default => t.short(),
                WOpt::Width(w) => format!("{}/w{}", t.short(), w),
                WOpt::Unknown => format!("{}/unk", t.short()),
                WOpt::UnknownDeprecated => format!("{}/unkdep", t.short()),
            },
            WCall::Raw(id, b) => format!("write_raw({:x},{})", id, crate::refmodel::hex(b)),
            WCall::Flush => "flush".into(),
        }
    }
}

#[derive(Clone, Debug, PartialEq, Eq, Hash)]
pub enum WErr {
    UnexpectedTag { id: u64, path: Vec<u64> },
    TagId(u64),
    TagSize(String),
    UnexpectedClosing { id: u64, expected: Option<u64> },
    Io(String),
    Panic(String),
}

impl WErr {
    pub fn is_io(&self) -> bool {
        matches!(self, WErr::Io(_))
    }
    pub fn kind(&self) -> &'static str {
        match self {
            WErr::UnexpectedTag { .. } => "UnexpectedTag",
            WErr::TagId(_) => "TagIdError",
            WErr::TagSize(_) => "TagSizeError",
            WErr::UnexpectedClosing { .. } => "UnexpectedClosingTag",
            WErr::Io(_) => "WriteError",
            WErr::Panic(_) => "PANIC",
        }
    }
}

pub fn norm_werr(e: &TagWriterError) -> WErr {
    match e {
        TagWriterError::UnexpectedTag { tag_id, current_path } => WErr::UnexpectedTag { id: *tag_id, path: current_path.clone() },
        TagWriterError::TagIdError(i) => WErr::TagId(*i),
        TagWriterError::TagSizeError(s) => WErr::TagSize(s.clone()),
        TagWriterError::UnexpectedClosingTag { tag_id, expected_id } => WErr::UnexpectedClosing { id: *tag_id, expected: *expected_id },
        TagWriterError::WriteError { source } => WErr::Io(source.to_string()),
    }
}

/// destination that records everything and can be told to accept only a few bytes per write
#[derive(Default, Clone, Debug)]
pub struct Dest {
    pub data: Vec<u8>,
    pub writes: usize,
    pub flushes: usize,
    /// per write call: max bytes accepted (0 = Interrupted once); exhausted → accept all
    pub policy: Vec<usize>,
    pub pi: usize,
    /// every write call (after the policy is exhausted) accepts at most this many bytes
    pub cap_all: Option<usize>,
}

impl Dest {
    pub fn with_policy(p: Vec<usize>) -> Dest {
        Dest { policy: p, ..Default::default() }
    }
    pub fn capped(n: usize) -> Dest {
        Dest { cap_all: Some(n), ..Default::default() }
    }
}

impl Write for Dest {
    fn write(&mut self, buf: &[u8]) -> io::Result<usize> {
        self.writes += 1;
        if buf.is_empty() {
            return Ok(0);
        }
        let lim = if self.pi < self.policy.len() { self.policy[self.pi] } else { self.cap_all.unwrap_or(usize::MAX) };
        self.pi += 1;
        if lim == 0 {
            return Err(io::Error::new(io::ErrorKind::Interrupted, "interrupted"));
        }
        let n = buf.len().min(lim);
        self.data.extend_from_slice(&buf[..n]);
        Ok(n)
    }
    fn flush(&mut self) -> io::Result<()> {
        self.flushes += 1;
        Ok(())
    }
}

#[allow(deprecated)]
pub fn apply_call<T: SpecT>(w: &mut TagWriter<Dest>, c: &WCall) -> Result<(), WErr> {
    let r = catch_unwind(AssertUnwindSafe(|| match c {
        WCall::Tag(t, opt) => {
            let tag: T = denormalise(t);
            match opt {
                WOpt::Default => w.write(&tag),
                WOpt::Width(n) => w.write_advanced(&tag, WriteOptions::set_size_byte_count(*n as usize)),
                WOpt::Unknown => w.write_advanced(&tag, WriteOptions::is_unknown_sized_element()),
                WOpt::UnknownDeprecated => w.write_unknown_size(&tag),
            }
        }
        WCall::Raw(id, b) => w.write_raw(*id, b),
        WCall::Flush => w.flush(),
    }));
    match r {
        Err(p) => Err(WErr::Panic(panic_msg(p))),
        Ok(Ok(())) => Ok(()),
        Ok(Err(e)) => Err(norm_werr(&e)),
    }
}

#[derive(Clone, Debug, PartialEq, Eq)]
pub struct WRun {
    pub results: Vec<Result<(), WErr>>,
    /// destination length after each call
    pub dest_len: Vec<usize>,
    pub fin: Result<(), WErr>,
    pub out: Vec<u8>,
}

/// run a whole call sequence then into_inner()
pub fn run_writer<T: SpecT>(calls: &[WCall], dest: Dest) -> WRun {
    let mut w = TagWriter::new(dest);
    let mut results = Vec::with_capacity(calls.len());
    let mut dest_len = Vec::with_capacity(calls.len());
    for c in calls {
        results.push(apply_call::<T>(&mut w, c));
        dest_len.push(w.get_ref().data.len());
    }
    // into_inner consumes; keep a copy of the destination in case it fails
    let r = catch_unwind(AssertUnwindSafe(move || match w.into_inner() {
        Ok(d) => (Ok(()), d.data),
        Err(e) => (Err(norm_werr(&e)), Vec::new()),
    }));
    match r {
        Ok((fin, out)) => WRun { results, dest_len, fin, out },
        Err(p) => WRun { results, dest_len, fin: Err(WErr::Panic(panic_msg(p))), out: Vec::new() },
    }
}
