//! C13 — each tolerance switch relaxes only its own check; relaxing never loses tags.

use crate::ctx::Ctx;
use crate::docs::{self, DocParams, MutKind};
use crate::gen::{self, SIGMA};
use crate::obs::{parse_slice, Cfg, MaxSize, NErr, Obs, Term, ALLOW_HIER, ALLOW_IDS, ALLOW_OVERSIZED};
use crate::refmodel::{flatten, hex, id_bytes, ref_encode, vint_encode, Kind, Lay, NItem, Node, SizeEnc};
use crate::spec::*;

#[derive(Clone, Copy, Debug, PartialEq, Eq)]
enum Class {
    Id,
    Hier,
    Oversized,
    Limit,
}

fn class_bit(c: Class) -> u8 {
    match c {
        Class::Id => ALLOW_IDS,
        Class::Hier => ALLOW_HIER,
        Class::Oversized => ALLOW_OVERSIZED,
        Class::Limit => 0,
    }
}

fn err_class(e: &NErr) -> Option<Class> {
    match e {
        NErr::InvalidTagId { .. } => Some(Class::Id),
        NErr::Hierarchy { .. } => Some(Class::Hier),
        NErr::OversizedChild { .. } => Some(Class::Oversized),
        NErr::InvalidTagSize { .. } => Some(Class::Limit),
        _ => None,
    }
}

fn unknown_id_of_len(len: usize) -> u64 {
    match len {
        1 => 0xf2,
        2 => 0x4f00,
        3 => 0x2a0002,
        4 => 0x1a45dfa4,
        8 => 0x0100000000000003,
        _ => panic!("machinery: no unknown id of length {}", len),
    }
}

/// universal clauses (b): what must hold for every input under configuration `cfg`
fn universal(obs: &Obs, cfg: &Cfg) -> Result<(), (String, String)> {
    for (n, (item, _)) in obs.items.iter().enumerate() {
        let has_raw = fn_has_raw(item);
        if has_raw && cfg.allow & ALLOW_IDS == 0 {
            return Err(("raw-tag-although-unknown-ids-not-tolerated".into(), format!("item #{} {}", n, item.short())));
        }
    }
    if let Term::Err(e) = &obs.term {
        if let Some(c) = err_class(e) {
            if c != Class::Limit && cfg.allow & class_bit(c) != 0 {
                return Err((format!("tolerated-class-still-reported/{}", e.kind()), e.short()));
            }
            if c == Class::Limit && cfg.max_size == MaxSize::Unlimited {
                return Err(("size-limit-error-although-limit-removed".into(), e.short()));
            }
        }
    }
    Ok(())
}

fn fn_has_raw(i: &NItem) -> bool {
    match i {
        NItem::Raw(..) => true,
        NItem::Full(_, ch) => ch.iter().any(fn_has_raw),
        _ => false,
    }
}

fn sweep_universal(ctx: &mut Ctx, rs: &RefSpec, input: &[u8], origin: &str, limits: &[MaxSize]) {
    let first_is_root = crate::refmodel::decode_header(input).map(|h| rs.is_root(h.id)).unwrap_or(false);
    let mut strict_items: Option<Vec<(NItem, usize)>> = None;
    let mut outcomes: Vec<(usize, String)> = Vec::new();
    for lim in limits {
        for allow in 0..8u8 {
            let cfg = Cfg { allow, buffered: vec![], cap: None, max_size: *lim, eof_end: true };
            let d = || format!("{} input={} {}", origin, hex(input), cfg.short());
            if !ctx.enter(&d) {
                continue;
            }
            let obs = parse_slice::<V>(input, &cfg);
            ctx.transitions += obs.items.len() as u64 + 1;
            ctx.outcome(&(obs.items.len(), match &obs.term { Term::Err(e) => e.kind(), Term::Done => "done", _ => "other" }, allow));
            if let Err((k, det)) = universal(&obs, &cfg) {
                ctx.violation(&k, &d, &format!("{} | observed {}", det, obs.short()));
            }
            if allow == 0 {
                strict_items = Some(obs.items.clone());
            } else if first_is_root {
                if let Some(si) = &strict_items {
                    ctx.count("prefix_comparisons", 1);
                    if obs.items.len() < si.len() || obs.items[..si.len()] != si[..] {
                        ctx.violation("strict-items-not-a-prefix-of-tolerant-items", &d, &format!("strict items [{}] | tolerant {}", si.iter().map(|(i, o)| format!("{}@{}", i.short(), o)).collect::<Vec<_>>().join(" "), obs.short()));
                    }
                }
            }
            outcomes.push((obs.items.len(), obs.term.short()));
            ctx.validated += 1;
            ctx.leave();
        }
        strict_items = None;
    }
    outcomes.dedup();
    if outcomes.len() >= 2 {
        ctx.nontrivial();
        ctx.count("inputs_on_which_configurations_disagree", 1);
    }
}

/// patch the 2-byte size field of the element at layout entry `l` to declare `size`
fn patch_size2(bytes: &mut [u8], l: &Lay, size: u64) {
    let idlen = id_bytes(l.id).len();
    let f = vint_encode(size, 2).expect("machinery: size does not fit 2 bytes");
    bytes[l.tag_start + idlen] = f[0];
    bytes[l.tag_start + idlen + 1] = f[1];
}

struct Fault {
    class: Class,
    bytes: Vec<u8>,
    /// number of flattened items that precede the offending element
    prefix: usize,
    pos: usize,
    id: u64,
    size: Option<usize>,
    what: String,
    /// ground-truth items of the undamaged document the fault was applied to
    want: Vec<(NItem, usize)>,
    /// layout of the faulted encoding (oversize faults only)
    lay: Vec<Lay>,
}

fn nth_node_mut<'a>(doc: &'a mut [Node], n: usize) -> &'a mut Node {
    fn rec<'a>(nodes: &'a mut [Node], n: &mut usize) -> Option<&'a mut Node> {
        for nd in nodes.iter_mut() {
            if *n == 0 {
                return Some(nd);
            }
            *n -= 1;
            if let Kind::Master(ch) = &mut nd.kind {
                if let Some(x) = rec(ch, n) {
                    return Some(x);
                }
            }
        }
        None
    }
    let mut k = n;
    rec(doc, &mut k).expect("machinery: node index")
}

/// chain of master ids enclosing layout entry i
fn chain_of(lay: &[Lay], i: usize) -> Vec<(usize, u64)> {
    let mut chain: Vec<(usize, u64)> = Vec::new();
    for (j, l) in lay.iter().enumerate().take(i) {
        if l.is_master && l.depth < lay[i].depth && l.tag_start <= lay[i].tag_start && l.end >= lay[i].end {
            chain.push((j, l.id));
        }
    }
    chain
}

fn flat_index_of(doc: &[Node], lay: &[Lay], li: usize) -> usize {
    let f = flatten(doc, lay);
    // the li-th node's first item: count non-End items
    let mut seen = 0;
    for (k, (it, _)) in f.iter().enumerate() {
        if !it.is_end() {
            if seen == li {
                return k;
            }
            seen += 1;
        }
    }
    panic!("machinery: flat index");
}

fn faults_for(rs: &RefSpec, doc: &Vec<Node>, only_oversized: bool) -> Vec<Fault> {
    let mut out = Vec::new();
    let (bytes0, lay0) = ref_encode(doc);
    let flat0 = flatten(doc, &lay0);
    let nodes = lay0.len();
    for li in 0..(if only_oversized { 0 } else { nodes }) {
        let l = &lay0[li];
        let prefix = flat_index_of(doc, &lay0, li);
        let idlen = id_bytes(l.id).len();
        let chain: Vec<u64> = chain_of(&lay0, li).iter().map(|x| x.1).collect();
        // (1) unknown id of the same length
        {
            let mut b = bytes0.clone();
            let nid = unknown_id_of_len(idlen);
            b[l.tag_start..l.tag_start + idlen].copy_from_slice(&id_bytes(nid));
            out.push(Fault { class: Class::Id, bytes: b, prefix, pos: l.tag_start, id: nid, size: None, what: format!("id of node {} replaced by unknown {:x}", li, nid), want: flat0.clone(), lay: vec![] });
        }
        // (2) a specification id of the same length and kind that is not allowed here (not for the first element, which is trusted)
        let first_non_global = lay0.iter().position(|x| !rs.is_global(x.id)).unwrap_or(usize::MAX);
        if li > first_non_global {
            let same_kind = |e: &ElemDef| (rs.ty(l.id) == Some(Ty::Master)) == (e.ty == Ty::Master) && (e.ty == Ty::Master || Some(e.ty) == rs.ty(l.id));
            if let Some(c) = rs.elems.iter().find(|e| id_bytes(e.id).len() == idlen && same_kind(e) && !rs.is_global(e.id) && !rs.allowed(e.id, &chain) && !chain_has_unknown_closable(rs, doc, &lay0, li, e.id)) {
                let mut b = bytes0.clone();
                b[l.tag_start..l.tag_start + idlen].copy_from_slice(&id_bytes(c.id));
                out.push(Fault { class: Class::Hier, bytes: b, prefix, pos: l.tag_start, id: c.id, size: None, what: format!("id of node {} replaced by {} (not allowed under {:x?})", li, c.name, chain), want: flat0.clone(), lay: vec![] });
            }
        }
    }
    // (2b) a GLOBAL element of the specification outside its depth range (a bounded placeholder such as (1-) or
    // (1-2)): a binary global can stand in for any element of the same id length, whatever it contained
    for li in 0..(if only_oversized { 0 } else { nodes }) {
        let l = &lay0[li];
        let first_non_global = lay0.iter().position(|x| !rs.is_global(x.id)).unwrap_or(usize::MAX);
        if li <= first_non_global {
            continue;
        }
        let prefix = flat_index_of(doc, &lay0, li);
        let idlen = id_bytes(l.id).len();
        let chain: Vec<u64> = chain_of(&lay0, li).iter().map(|x| x.1).collect();
        for g in rs.elems.iter().filter(|e| rs.is_global(e.id) && e.ty == Ty::B && id_bytes(e.id).len() == idlen && !rs.allowed(e.id, &chain)) {
            let mut b = bytes0.clone();
            b[l.tag_start..l.tag_start + idlen].copy_from_slice(&id_bytes(g.id));
            out.push(Fault { class: Class::Hier, bytes: b, prefix, pos: l.tag_start, id: g.id, size: None, what: format!("id of node {} replaced by the global {} (outside its depth range under {:x?})", li, g.name, chain), want: flat0.clone(), lay: vec![] });
        }
    }
    // (3) size bumped past the parent's end: re-encode with a 2-byte size field on the victim, then patch it
    for li in 0..nodes {
        let l0 = &lay0[li];
        if l0.depth == 0 {
            continue;
        }
        let ty = rs.ty(l0.id);
        if !matches!(ty, Some(Ty::Master) | Some(Ty::S) | Some(Ty::B)) {
            continue;
        }
        let mut d2 = doc.clone();
        nth_node_mut(&mut d2, li).size = SizeEnc::Width(2);
        let (mut b, lay) = ref_encode(&d2);
        let l = &lay[li];
        // the nearest known-size ancestor (unknown-size masters in between do not limit anything)
        let Some(parent) = chain_of(&lay, li).iter().rev().map(|x| x.0).find(|j| !lay[*j].unknown) else { continue };
        if chain_of(&lay, li).last().map(|x| lay[x.0].unknown).unwrap_or(false) {
            // counted by the caller as the "unknown-size master in between" case
        }
        let real = l.end - l.data_start;
        let bumped = (lay[parent].end - l.data_start) + 1;
        if bumped >= 0x3fff {
            continue;
        }
        let _ = real;
        patch_size2(&mut b, l, bumped as u64);
        // Ends of unknown-size masters that this element would close are only emitted once it has been read
        let fex = crate::refmodel::flatten_ex(&d2, &lay);
        let mut prefix = flat_index_of(&d2, &lay, li);
        while prefix > 0 && fex[prefix - 1].0.is_end() && lay[fex[prefix - 1].2].unknown {
            prefix -= 1;
        }
        out.push(Fault { class: Class::Oversized, bytes: b, prefix, pos: l.tag_start, id: l.id, size: Some(bumped), what: format!("size of node {} bumped to {} (parent ends {} bytes earlier)", li, bumped, 1), want: flatten(&d2, &lay), lay: lay.clone() });
    }
    out
}

/// a replacement id that would *close* an enclosing unknown-size master is not a hierarchy fault — (a) uses known-size documents only
fn chain_has_unknown_closable(_rs: &RefSpec, _doc: &Vec<Node>, _lay: &[Lay], _li: usize, _id: u64) -> bool {
    false
}

fn check_fault(ctx: &mut Ctx, rs: &RefSpec, doc: &Vec<Node>, f: &Fault, want_items: &[(NItem, usize)]) {
    for allow in 0..8u8 {
        let cfg = Cfg { allow, buffered: vec![], cap: None, max_size: MaxSize::Limit(1 << 16), eof_end: true };
        let d = || format!("doc=[{}] fault: {} input={} {}", docs::doc_short(rs, doc), f.what, hex(&f.bytes), cfg.short());
        if !ctx.enter(&d) {
            continue;
        }
        ctx.nontrivial();
        let obs = parse_slice::<V>(&f.bytes, &cfg);
        ctx.transitions += obs.items.len() as u64 + 1;
        let tolerated = allow & class_bit(f.class) != 0;
        let prefix_ok = obs.items.len() >= f.prefix && obs.items[..f.prefix] == want_items[..f.prefix];
        if !prefix_ok {
            ctx.violation(&format!("fault-{:?}/items-before-the-fault-differ", f.class), &d, &format!("expected prefix [{}] | observed {}", want_items[..f.prefix].iter().map(|(i, o)| format!("{}@{}", i.short(), o)).collect::<Vec<_>>().join(" "), obs.short()));
        } else if !tolerated {
            ctx.count(&format!("fault_{:?}_strict", f.class), 1);
            // exactly the prefix, then an error of the class (or of another class that also applies to this element)
            let ok = obs.items.len() == f.prefix
                && match &obs.term {
                    Term::Err(NErr::InvalidTagId { pos, id }) => f.class == Class::Id && *pos == f.pos && *id == f.id,
                    Term::Err(NErr::Hierarchy { found, .. }) => f.class == Class::Hier && *found == f.id,
                    // (kind and offset are what the statement fixes; the id identifies the element; what the size field counts is the library's business)
                    Term::Err(NErr::OversizedChild { pos, id, .. }) => (f.class == Class::Oversized && *pos == f.pos && *id == f.id) || (f.class == Class::Hier && *pos == f.pos),
                    _ => false,
                };
            if !ok {
                ctx.violation(&format!("fault-{:?}/not-reported-with-its-kind-and-position", f.class), &d, &format!("expected {:?} error at {} for id {:x} after {} items | observed {}", f.class, f.pos, f.id, f.prefix, obs.short()));
            }
        } else {
            ctx.count(&format!("fault_{:?}_tolerated", f.class), 1);
            if let Term::Err(e) = &obs.term {
                if err_class(e) == Some(f.class) {
                    ctx.violation(&format!("fault-{:?}/reported-although-tolerated", f.class), &d, &obs.short());
                }
            }
            if obs.items.len() <= f.prefix && !matches!(obs.term, Term::Err(_)) {
                ctx.violation(&format!("fault-{:?}/tolerated-but-parse-did-not-proceed", f.class), &d, &obs.short());
            }
        }
        // the tolerated set is what the LAST allow_errors call says, whatever was configured before it
        for earlier in 0..8u8 {
            if earlier == allow {
                continue;
            }
            let again = crate::obs::parse_slice_reconfigured::<V>(&f.bytes, &cfg, earlier);
            ctx.transitions += again.items.len() as u64 + 3;
            ctx.count("reconfigured_parses", 1);
            if again != obs {
                ctx.violation("reconfiguration/earlier-allow_errors-call-shows-through", &d, &format!("allow_errors({}) then allow_errors({}) gives {} | allow_errors({}) alone gives {}", earlier, allow, again.short(), allow, obs.short()));
                break;
            }
        }
        ctx.validated += 1;
        ctx.leave();
    }
}

/// An oversize fault BEHIND a run of junk that is recovered from: try_recover() stretches the open known-size masters
/// by exactly the skipped bytes, so a child that overran its ancestor before still does and must still be reported
/// at its (shifted) position — whatever the buffer went through before the recovery (capacity 16, 1-byte reads).
fn fault_behind_a_recovery(ctx: &mut Ctx, rs: &RefSpec, doc: &Vec<Node>, f: &Fault) {
    let lay = &f.lay;
    for (li, l) in lay.iter().enumerate() {
        let b = l.tag_start;
        if b >= f.pos {
            break;
        }
        let enclosing: Vec<&Lay> = lay.iter().filter(|k| k.is_master && !k.unknown && k.data_start <= b && b < k.end).collect();
        let fi = {
            let mut seen = 0;
            let mut r = 0;
            for (k, (it, _)) in f.want.iter().enumerate() {
                if !it.is_end() {
                    if seen == li {
                        r = k;
                        break;
                    }
                    seen += 1;
                }
            }
            r
        };
        if fi > f.prefix {
            continue;
        }
        for junk in [vec![0x00u8], vec![0x00, 0x02, 0x05], vec![0x05; 17]] {
            let j = junk.len();
            if !enclosing.iter().all(|k| l.end + j <= k.end) {
                continue;
            }
            let mut input = Vec::with_capacity(f.bytes.len() + j);
            input.extend_from_slice(&f.bytes[..b]);
            input.extend_from_slice(&junk);
            input.extend_from_slice(&f.bytes[b..]);
            let shift = |v: &[(NItem, usize)]| -> Vec<(NItem, usize)> { v.iter().map(|(it, o)| (it.clone(), if *o >= b { *o + j } else { *o })).collect() };
            let want_before = f.want[..fi].to_vec();
            let want_between = shift(&f.want[fi..f.prefix]);
            for cap in [None, Some(16usize)] {
                for one_byte_reads in [false, true] {
                    let cfg = Cfg { allow: 0, buffered: vec![], cap, max_size: MaxSize::Limit(1 << 16), eof_end: true };
                    let steps: Vec<crate::obs::Step> = if one_byte_reads { vec![crate::obs::Step::Max(1); input.len() + 2] } else { vec![] };
                    let d = || format!("doc=[{}] fault: {} behind junk {} inserted at {} input={} {} {}", docs::doc_short(rs, doc), f.what, hex(&junk), b, hex(&input), cfg.short(), if one_byte_reads { "1-byte reads" } else { "whole reads" });
                    if !ctx.enter(&d) {
                        continue;
                    }
                    ctx.nontrivial();
                    ctx.count("fault_behind_a_recovery", 1);
                    let mut it: ebml_iterable::TagIterator<crate::obs::Script, V> = crate::obs::make_iter(crate::obs::Script::new(&input, &steps), &cfg);
                    let mut log: Vec<String> = Vec::new();
                    let mut before = Vec::new();
                    let mut between = Vec::new();
                    let mut verdict: Option<(&str, String)> = None;
                    let mut phase = 0;
                    for _ in 0..(2 * input.len() + 16) {
                        ctx.transitions += 1;
                        match crate::obs::step_next(&mut it) {
                            Err(p) => {
                                verdict = Some(("recovery-then-fault/panic", p));
                                break;
                            }
                            Ok(None) => {
                                log.push("None".into());
                                verdict = Some(("recovery-then-fault/fault-not-reported", "the parse ended without reporting the oversized child".into()));
                                break;
                            }
                            Ok(Some(Ok(x))) => {
                                log.push(format!("{}@{}", x.0.short(), x.1));
                                if phase == 0 { before.push(x) } else { between.push(x) }
                            }
                            Ok(Some(Err(e))) => {
                                log.push(format!("Err({})", e.short()));
                                if phase == 0 {
                                    phase = 1;
                                    match std::panic::catch_unwind(std::panic::AssertUnwindSafe(|| it.try_recover())) {
                                        Err(p) => {
                                            verdict = Some(("recovery-then-fault/panic", crate::obs::panic_msg(p)));
                                            break;
                                        }
                                        Ok(Err(e)) => {
                                            verdict = Some(("recovery-then-fault/recovery-failed", crate::obs::norm_err(&e).short()));
                                            break;
                                        }
                                        Ok(Ok(())) => log.push("recover:Ok".into()),
                                    }
                                } else {
                                    let ok = matches!(&e, NErr::OversizedChild { pos, id, .. } if *pos == f.pos + j && *id == f.id);
                                    if !ok {
                                        verdict = Some(("recovery-then-fault/not-reported-with-its-kind-and-position", format!("expected OversizedChild at {} for id {:x}", f.pos + j, f.id)));
                                    }
                                    break;
                                }
                            }
                        }
                    }
                    if verdict.is_none() && (before != want_before || between != want_between) {
                        verdict = Some(("recovery-then-fault/items-differ", format!("expected [{}] error [{}]", want_before.iter().map(|(i, o)| format!("{}@{}", i.short(), o)).collect::<Vec<_>>().join(" "), want_between.iter().map(|(i, o)| format!("{}@{}", i.short(), o)).collect::<Vec<_>>().join(" "))));
                    }
                    if let Some((k, det)) = verdict {
                        ctx.violation(k, &d, &format!("{} | calls: {}", det, log.join(" ")));
                    }
                    ctx.validated += 1;
                    ctx.leave();
                }
            }
        }
    }
}

pub fn run(ctx: &mut Ctx) {
    let rs = v_refspec();
    crate::spec::assert_spec_matches::<V>(&rs);
    let n = ctx.tier.pick(5, 6);
    ctx.meta("rule", "cases: (input, tolerance subset, size limit). (a) every known-size document of T∘E with one injected fault of each class at every element (unknown id of the same length; specification id of the same length/kind not allowed there; a global element outside its depth range; size bumped one byte past the parent's end; declared size above the limit at root level; the oversize fault also through unknown-size masters lying between the child and the known-size ancestor) under all 8 tolerance subsets: not tolerated => exactly the items before the fault, then that class's error kind with the element's offset/id/size (another applicable class accepted); tolerated => that kind never occurs and the parse proceeds; and the same input parsed after allow_errors(E) followed by allow_errors(A), for every other subset E, equals the parse under allow_errors(A) alone; every oversize fault also behind a run of junk (1, 3, 17 bytes, at every earlier tag boundary where the next tag still fits) that is recovered from with try_recover(), capacities {default,16}, whole and 1-byte reads: the items in between, then OversizedChild at the shifted offset. (b) every Σ string up to length n, every document and every single mutation x 8 subsets x limits {default, 5, none}: no raw tag unless unknown ids are tolerated, no error kind of a tolerated class, no size-limit error once the limit is removed, and for inputs starting at a root element the strict Ok items are a prefix of the Ok items under every other subset; header-only streams declaring > 4 GB are rejected with InvalidTagSize under every subset while the limit is untouched. Non-trivial: inputs on which two configurations disagree, and all injected faults.");
    ctx.meta("bounds", &format!("Σ* length <= {}; documents <= {} elements; all single faults / mutations", n, ctx.tier.pick(4, 5)));
    ctx.meta("assumptions", "HierarchyError carries no position: its found_tag_id is compared instead");
    for c in ["fault_Oversized_through_unknown_size_master", "fault_Id_strict", "fault_Id_tolerated", "fault_Hier_strict", "fault_Hier_tolerated", "fault_Oversized_strict", "fault_Oversized_tolerated", "fault_Limit", "prefix_comparisons", "inputs_on_which_configurations_disagree", "default_limit_rejections", "reconfigured_parses", "fault_behind_a_recovery"] {
        ctx.expect_nonzero(c);
    }
    // (a)
    let p = DocParams { max_nodes: ctx.tier.pick(4, 5), globals: vec![ID_TAG, ID_VOID], exclude: vec![], unknown_subsets: false, devs: 0, payload_classes: false, big_payloads: false, noncanonical: false, width_devs: false, extras: true, all_widths: false };
    docs::for_each_doc(ctx, &rs, &p, &mut |ctx, doc| {
        let (bytes, lay) = ref_encode(doc);
        for f in faults_for(&rs, doc, false) {
            let want = f.want.clone();
            if want.len() < f.prefix {
                continue;
            }
            check_fault(ctx, &rs, doc, &f, &want);
            if f.class == Class::Oversized {
                fault_behind_a_recovery(ctx, &rs, doc, &f);
            }
        }
        // size limit at root level
        for lim in [5usize, 16, 1000] {
            let flat = flatten(doc, &lay);
            // first root-level element whose declared size exceeds the limit
            let mut prefix = 0;
            let mut hit: Option<&Lay> = None;
            for (li, l) in lay.iter().enumerate() {
                if l.depth == 0 && l.end - l.data_start > lim {
                    hit = Some(l);
                    prefix = flat_index_of(doc, &lay, li);
                    break;
                }
            }
            for allow in 0..8u8 {
                let cfg = Cfg { allow, buffered: vec![], cap: None, max_size: MaxSize::Limit(lim), eof_end: true };
                let d = || format!("doc=[{}] input={} {}", docs::doc_short(&rs, doc), hex(&bytes), cfg.short());
                if !ctx.enter(&d) {
                    continue;
                }
                let obs = parse_slice::<V>(&bytes, &cfg);
                ctx.transitions += obs.items.len() as u64 + 1;
                match hit {
                    Some(l) => {
                        ctx.count("fault_Limit", 1);
                        ctx.nontrivial();
                        let ok = obs.items.len() == prefix && obs.items[..] == flat[..prefix] && obs.term == Term::Err(NErr::InvalidTagSize { pos: l.tag_start, id: l.id, size: l.end - l.data_start });
                        if !ok {
                            ctx.violation("fault-Limit/not-reported-with-its-kind-and-position", &d, &format!("root-level {:x} at {} declares {} > limit {} | observed {}", l.id, l.tag_start, l.end - l.data_start, lim, obs.short()));
                        }
                    }
                    None => {
                        if obs.items != flat || !obs.clean() {
                            ctx.violation("limit-not-exceeded-but-parse-differs", &d, &obs.short());
                        }
                    }
                }
                ctx.validated += 1;
                ctx.leave();
            }
        }
        !ctx.should_stop()
    });
    // (a') children overrunning a known-size ancestor THROUGH unknown-size masters in between
    let pu = DocParams { max_nodes: ctx.tier.pick(4, 5), globals: vec![], exclude: vec![], unknown_subsets: true, devs: 0, payload_classes: false, big_payloads: false, noncanonical: false, width_devs: false, extras: true, all_widths: false };
    docs::for_each_doc(ctx, &rs, &pu, &mut |ctx, doc| {
        let (_, lay) = ref_encode(doc);
        if !lay.iter().any(|l| l.unknown) || !lay.iter().any(|l| l.is_master && !l.unknown) {
            return true;
        }
        for f in faults_for(&rs, doc, true) {
            if f.want.len() < f.prefix {
                continue;
            }
            ctx.count("fault_Oversized_through_unknown_size_master", 1);
            let want = f.want.clone();
            check_fault(ctx, &rs, doc, &f, &want);
        }
        !ctx.should_stop()
    });
    // default limit stays in force: > 4e9 rejected under every subset when untouched
    if ctx.mine(0) {
        for (id, name) in [(ID_B, "B at stream start"), (ID_ROOT, "Root"), (ID_VOID, "Void"), (0xf2u64, "unknown id")] {
            for size in [4_000_000_001u64, 5_000_000_000, (1u64 << 40) + 1, (1u64 << 56) - 2] {
                for w in [5usize, 6, 8] {
                    let Some(sf) = vint_encode(size, w) else { continue };
                    let mut input = id_bytes(id);
                    input.extend(sf);
                    input.extend_from_slice(&[1, 2, 3]);
                    for allow in 0..8u8 {
                        let cfg = Cfg { allow, buffered: vec![], cap: None, max_size: MaxSize::Default, eof_end: true };
                        let d = || format!("{} declaring {} bytes: input={} {}", name, size, hex(&input), cfg.short());
                        if !ctx.enter(&d) {
                            continue;
                        }
                        let obs = parse_slice::<V>(&input, &cfg);
                        ctx.transitions += 1;
                        let ok = match &obs.term {
                            Term::Err(NErr::InvalidTagSize { pos: 0, id: i, size: s }) => *i == id && *s as u64 == size,
                            Term::Err(NErr::InvalidTagId { .. }) => id == 0xf2 && allow & ALLOW_IDS == 0,
                            _ => false,
                        };
                        ctx.count("default_limit_rejections", 1);
                        if !ok || !obs.items.is_empty() {
                            ctx.violation("default-limit/not-enforced", &d, &obs.short());
                        }
                        ctx.validated += 1;
                        ctx.leave();
                    }
                }
            }
        }
    }
    // (b) universal clauses
    let limits = [MaxSize::Default, MaxSize::Limit(5), MaxSize::Unlimited];
    let (shard, nshards) = (ctx.shard, ctx.nshards);
    gen::strings(&SIGMA, n, shard, nshards, &mut |s| {
        sweep_universal(ctx, &rs, s, "sigma", &limits);
        !ctx.should_stop()
    });
    let p2 = DocParams { max_nodes: ctx.tier.pick(3, 4), globals: vec![ID_TAG, ID_VOID], exclude: vec![], unknown_subsets: true, devs: 0, payload_classes: false, big_payloads: false, noncanonical: false, width_devs: false, extras: true, all_widths: false };
    let mlimits = [MaxSize::Limit(1 << 16), MaxSize::Limit(5)];
    docs::for_each_doc(ctx, &rs, &p2, &mut |ctx, doc| {
        let (bytes, lay) = ref_encode(doc);
        sweep_universal(ctx, &rs, &bytes, "doc", &limits);
        let bounds: Vec<usize> = lay.iter().map(|l| l.tag_start).collect();
        docs::for_each_mutation(&bytes, &bounds, &SIGMA, &[MutKind::Replace, MutKind::Delete, MutKind::Truncate], &mut |m, _k, _pos| {
            sweep_universal(ctx, &rs, m, "mut", &mlimits);
            !ctx.should_stop()
        });
        !ctx.should_stop()
    });
}
