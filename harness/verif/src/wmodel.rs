//! Writer-side reference: how a document tree is presented to the writer, what output is acceptable.

use crate::obs::{WCall, WOpt};
use crate::refmodel::{decode_header, hex, id_bytes, Kind, NItem, Node, SizeEnc, Val};
use crate::spec::{RefSpec, Ty};

fn opt_of(size: SizeEnc, deprecated_unknown: bool) -> WOpt {
    match size {
        SizeEnc::Min => WOpt::Default,
        SizeEnc::Width(w) => WOpt::Width(w),
        SizeEnc::Unknown(_) => {
            if deprecated_unknown {
                WOpt::UnknownDeprecated
            } else {
                WOpt::Unknown
            }
        }
    }
}

pub fn node_to_item(n: &Node) -> NItem {
    match &n.kind {
        Kind::Master(ch) => NItem::Full(n.id, ch.iter().map(node_to_item).collect()),
        Kind::Leaf { val, .. } => NItem::Leaf(n.id, val.clone()),
        Kind::RawLeaf(b) => NItem::Raw(n.id, b.clone()),
    }
}

/// Calls presenting `doc`; masters whose DFS index is in `full` are written as one Full item
/// (their `size` option applies to the Full call; everything inside is default by construction).
pub fn calls_for(doc: &[Node], full: &[usize], deprecated_unknown: bool) -> Vec<WCall> {
    fn rec(nodes: &[Node], full: &[usize], dep: bool, mi: &mut usize, out: &mut Vec<WCall>) {
        for n in nodes {
            match &n.kind {
                Kind::Master(ch) => {
                    let my = *mi;
                    *mi += 1;
                    if full.contains(&my) {
                        out.push(WCall::Tag(node_to_item(n), opt_of(n.size, dep)));
                        *mi += n.masters_count() - 1;
                    } else {
                        out.push(WCall::Tag(NItem::Start(n.id), opt_of(n.size, dep)));
                        rec(ch, full, dep, mi, out);
                        out.push(WCall::Tag(NItem::End(n.id), WOpt::Default));
                    }
                }
                Kind::Leaf { val, .. } => out.push(WCall::Tag(NItem::Leaf(n.id, val.clone()), opt_of(n.size, dep))),
                Kind::RawLeaf(b) => out.push(WCall::Tag(NItem::Raw(n.id, b.clone()), opt_of(n.size, dep))),
            }
        }
    }
    let mut out = Vec::new();
    let mut mi = 0;
    rec(doc, full, deprecated_unknown, &mut mi, &mut out);
    out
}

/// DFS indexes of masters that can be chosen as Full roots: every antichain (no chosen master inside another).
pub fn full_choices(doc: &[Node]) -> Vec<Vec<usize>> {
    // masters in DFS order with their subtree master counts
    // (subtree master count, may be a Full root: every strict descendant uses default options, since a
    // child of a Full item cannot carry write options)
    fn all_default(nodes: &[Node]) -> bool {
        nodes.iter().all(|n| n.size == SizeEnc::Min && match &n.kind { Kind::Master(ch) => all_default(ch), _ => true })
    }
    fn collect(nodes: &[Node], out: &mut Vec<usize>, ok: &mut Vec<bool>) {
        for n in nodes {
            if let Kind::Master(ch) = &n.kind {
                out.push(n.masters_count());
                ok.push(all_default(ch));
                collect(ch, out, ok);
            }
        }
    }
    let mut sub = Vec::new();
    let mut ok = Vec::new();
    collect(doc, &mut sub, &mut ok);
    let m = sub.len();
    let mut res: Vec<Vec<usize>> = Vec::new();
    fn rec(i: usize, m: usize, sub: &[usize], ok: &[bool], cur: &mut Vec<usize>, res: &mut Vec<Vec<usize>>) {
        if i >= m {
            res.push(cur.clone());
            return;
        }
        // not chosen
        rec(i + 1, m, sub, ok, cur, res);
        // chosen: skip its subtree
        if ok[i] {
            cur.push(i);
            rec(i + sub[i], m, sub, ok, cur, res);
            cur.pop();
        }
    }
    let mut cur = Vec::new();
    rec(0, m, &sub, &ok, &mut cur, &mut res);
    res
}

/// Walk `out` guided by the expected tree. Checks ids, payload bytes, order, size values == actual content
/// lengths, requested widths honoured exactly, unknown-size masters carrying an all-ones size.
/// Where no width was requested any well-formed width is accepted. Returns bytes consumed.
pub fn match_output(out: &[u8], expected: &[Node]) -> Result<usize, String> {
    let mut pos = 0usize;
    for n in expected {
        let h = decode_header(&out[pos..]).ok_or_else(|| format!("no well-formed header at {} (expected id {:x})", pos, n.id))?;
        if h.id != n.id {
            return Err(format!("at {}: id {:x}, expected {:x}", pos, h.id, n.id));
        }
        if h.id_len != id_bytes(n.id).len() {
            return Err(format!("at {}: id {:x} not written in its own length", pos, n.id));
        }
        let data_start = pos + h.id_len + h.size_len;
        match n.size {
            SizeEnc::Width(w) => {
                if h.size_len != w as usize {
                    return Err(format!("at {}: element {:x} size field has {} bytes, {} were requested", pos, n.id, h.size_len, w));
                }
            }
            SizeEnc::Unknown(_) => {
                if h.size.is_some() {
                    return Err(format!("at {}: master {:x} was written with unknown size but carries size {:?}", pos, n.id, h.size));
                }
            }
            SizeEnc::Min => {}
        }
        match &n.kind {
            Kind::Master(ch) => {
                let used = match_output(&out[data_start..], ch).map_err(|e| format!("in master {:x} at {}: {}", n.id, pos, e))?;
                match (n.size, h.size) {
                    (SizeEnc::Unknown(_), _) => {}
                    (_, None) => return Err(format!("at {}: known-size master {:x} written with the reserved all-ones size field {}", pos, n.id, hex(&out[pos + h.id_len..data_start]))),
                    (_, Some(s)) => {
                        if s as usize != used {
                            return Err(format!("at {}: master {:x} declares {} content bytes but its children occupy {}", pos, n.id, s, used));
                        }
                    }
                }
                pos = data_start + used;
            }
            Kind::Leaf { val, .. } => {
                let want = val.canonical_bytes();
                pos = leaf_payload(out, pos, data_start, &h.size, &want, n.id)?;
            }
            Kind::RawLeaf(b) => {
                pos = leaf_payload(out, pos, data_start, &h.size, b, n.id)?;
            }
        }
    }
    Ok(pos)
}

fn leaf_payload(out: &[u8], pos: usize, data_start: usize, size: &Option<u64>, want: &[u8], id: u64) -> Result<usize, String> {
    let Some(s) = size else {
        return Err(format!("at {}: element {:x} with a {}-byte payload written with the reserved all-ones size field {}", pos, id, want.len(), hex(&out[pos..data_start])));
    };
    let s = *s as usize;
    if s != want.len() {
        return Err(format!("at {}: element {:x} declares {} payload bytes, expected {}", pos, id, s, want.len()));
    }
    if data_start + s > out.len() || &out[data_start..data_start + s] != want {
        return Err(format!("at {}: element {:x} payload bytes differ", pos, id));
    }
    Ok(data_start + s)
}

/// Can a size field of `width` bytes hold `size`? (the all-ones value is reserved)
pub fn width_holds(width: u8, size: u64) -> bool {
    (size as u128) < (1u128 << (7 * width as u32)) - 1
}

/// Reference content length of a node when encoded with minimal non-reserved widths inside (used to decide
/// whether an explicit width on a master can hold its content; only exact when all inner widths are default
/// AND the writer picks minimal default widths — so only used for leaves and for masters whose content is
/// measured from the real output instead).
pub fn leaf_len(n: &Node) -> Option<usize> {
    match &n.kind {
        Kind::Leaf { val, .. } => Some(val.canonical_bytes().len()),
        Kind::RawLeaf(b) => Some(b.len()),
        _ => None,
    }
}

pub fn val_for(ty: Ty) -> Val {
    crate::gen::default_val(ty)
}

pub fn is_master(rs: &RefSpec, id: u64) -> bool {
    rs.ty(id) == Some(Ty::Master)
}
