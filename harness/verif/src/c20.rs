//! C20 — the async iterator yields what the blocking iterator yields, for every poll schedule.

use std::io::Cursor;
use std::panic::{catch_unwind, AssertUnwindSafe};
use std::pin::Pin;
use std::task::{Context, Poll};

use ebml_iterable::nonblocking::TagIteratorAsync;
use ebml_iterable::specs::Master;
use ebml_iterable::TagIterator;
use futures::executor::block_on;
use futures::{AsyncRead, StreamExt};

use crate::ctx::Ctx;
use crate::docs::{self, DocParams, MutKind};
use crate::gen;
use crate::obs::{make_iter, norm_err, normalise, panic_msg, parse_slice, step_next, Cfg, NErr, Obs, Term};
use crate::refmodel::{hex, ref_encode, NItem, Node, SizeEnc, Val};
use crate::spec::*;

#[derive(Clone, Copy, Debug, PartialEq, Eq)]
pub enum AStep {
    /// deliver at most this many bytes
    Chunk(usize),
    /// Poll::Pending with an immediate self-wake
    Pending,
}

pub struct AScript<'a> {
    data: &'a [u8],
    pos: usize,
    steps: &'a [AStep],
    i: usize,
    pub polls: usize,
}

impl<'a> AsyncRead for AScript<'a> {
    fn poll_read(mut self: Pin<&mut Self>, cx: &mut Context<'_>, buf: &mut [u8]) -> Poll<std::io::Result<usize>> {
        self.polls += 1;
        let step = if self.i < self.steps.len() { self.steps[self.i] } else { AStep::Chunk(usize::MAX) };
        self.i += 1;
        match step {
            AStep::Pending => {
                cx.waker().wake_by_ref();
                Poll::Pending
            }
            AStep::Chunk(m) => {
                let n = m.max(1).min(buf.len()).min(self.data.len() - self.pos);
                let p = self.pos;
                buf[..n].copy_from_slice(&self.data[p..p + n]);
                self.pos += n;
                Poll::Ready(Ok(n))
            }
        }
    }
}

fn buffered_tags(set: &[u64]) -> Vec<V> {
    use ebml_iterable::specs::EbmlSpecification;
    set.iter().map(|id| V::get_master_tag(*id, Master::Start).unwrap()).collect()
}

/// drive `next().await` to the end (plus two more calls after None)
fn run_async(bytes: &[u8], steps: &[AStep], set: &[u64]) -> (Obs, bool, Vec<String>) {
    let r = catch_unwind(AssertUnwindSafe(|| {
        let src = AScript { data: bytes, pos: 0, steps, i: 0, polls: 0 };
        let mut it: TagIteratorAsync<AScript, V> = TagIteratorAsync::new(src, &buffered_tags(set));
        let mut items = Vec::new();
        let budget = 2 * bytes.len() + 64;
        block_on(async {
            loop {
                if items.len() > budget {
                    return (Obs { items, term: Term::Budget }, true, vec![]);
                }
                match it.next().await {
                    None => {
                        // ends once: further calls keep returning None
                        let mut fused = true;
                        for _ in 0..2 {
                            if it.next().await.is_some() {
                                fused = false;
                            }
                        }
                        return (Obs { items, term: Term::Done }, fused, vec![]);
                    }
                    Some(Ok(t)) => items.push((normalise(&t), it.last_emitted_tag_offset())),
                    Some(Err(e)) => {
                        // what the next few calls after the first error yield (an error does not end the sequence)
                        let mut tail = Vec::new();
                        for _ in 0..POST_ERROR_CALLS {
                            match it.next().await {
                                None => {
                                    tail.push("None".to_string());
                                    break;
                                }
                                Some(Ok(t)) => tail.push(normalise(&t).short()),
                                Some(Err(e2)) => tail.push(format!("Err({})", norm_err(&e2).kind())),
                            }
                        }
                        return (Obs { items, term: Term::Err(norm_err(&e)) }, true, tail);
                    }
                }
            }
        })
    }));
    match r {
        Ok(x) => x,
        Err(p) => (Obs { items: vec![], term: Term::Panic(panic_msg(p)) }, true, vec![]),
    }
}

const POST_ERROR_CALLS: usize = 4;

/// the stream adapter (no offsets available)
fn run_stream(bytes: &[u8], steps: &[AStep], set: &[u64]) -> (Vec<NItem>, Term, Vec<String>) {
    let r = catch_unwind(AssertUnwindSafe(|| {
        let src = AScript { data: bytes, pos: 0, steps, i: 0, polls: 0 };
        let it: TagIteratorAsync<AScript, V> = TagIteratorAsync::new(src, &buffered_tags(set));
        let mut st = Box::pin(it.into_stream());
        let mut items = Vec::new();
        let budget = 2 * bytes.len() + 64;
        block_on(async {
            loop {
                if items.len() > budget {
                    return (items, Term::Budget, vec![]);
                }
                match st.next().await {
                    None => return (items, Term::Done, vec![]),
                    Some(Ok(t)) => items.push(normalise(&t)),
                    Some(Err(e)) => {
                        let mut tail = Vec::new();
                        for _ in 0..POST_ERROR_CALLS {
                            match st.next().await {
                                None => {
                                    tail.push("None".to_string());
                                    break;
                                }
                                Some(Ok(t)) => tail.push(normalise(&t).short()),
                                Some(Err(e2)) => tail.push(format!("Err({})", norm_err(&e2).kind())),
                            }
                        }
                        return (items, Term::Err(norm_err(&e)), tail);
                    }
                }
            }
        })
    }));
    match r {
        Ok(x) => x,
        Err(p) => (vec![], Term::Panic(panic_msg(p)), vec![]),
    }
}

/// Defect model of the known finding D17: the documented architecture restated with the BLOCKING iterator —
/// before each next(), append what one source read delivers (at most 64 KiB) to an in-memory cursor.
fn defect_model(bytes: &[u8], steps: &[AStep], set: &[u64]) -> Obs {
    let cfg = Cfg::strict().with_buffered(set);
    let mut it: TagIterator<Cursor<Vec<u8>>, V> = make_iter(Cursor::new(Vec::new()), &cfg);
    let chunks: Vec<usize> = steps.iter().filter_map(|s| if let AStep::Chunk(m) = s { Some(*m) } else { None }).collect();
    let mut pos = 0;
    let mut ci = 0;
    let mut items = Vec::new();
    let budget = 2 * bytes.len() + 64;
    loop {
        let m = if ci < chunks.len() { chunks[ci] } else { usize::MAX };
        ci += 1;
        let n = m.max(1).min(65536).min(bytes.len() - pos);
        it.get_mut().get_mut().extend_from_slice(&bytes[pos..pos + n]);
        pos += n;
        if items.len() > budget {
            return Obs { items, term: Term::Budget };
        }
        match step_next(&mut it) {
            Err(p) => return Obs { items, term: Term::Panic(p) },
            Ok(None) => return Obs { items, term: Term::Done },
            Ok(Some(Ok(x))) => items.push(x),
            Ok(Some(Err(e))) => return Obs { items, term: Term::Err(e) },
        }
    }
}

/// Does the source stay ahead of the parser? One source read happens per next() call; `need[k]` is the number of
/// bytes that must have arrived for the call that yields the k-th item of the blocking parse (the last entry: the
/// terminating call) never to see "nothing more yet": a Start needs its header, a leaf its whole element, an End
/// or a buffered master the element that follows it (or the end of input). Computed from the blocking parse and
/// the input bytes with RefCodec only. On such schedules the known finding D17 cannot manifest.
fn source_stays_ahead(bytes: &[u8], steps: &[AStep], blocking: &Obs) -> bool {
    let n = blocking.items.len();
    let mut need = vec![bytes.len(); n + 1];
    for k in (0..n).rev() {
        let (item, off) = &blocking.items[k];
        need[k] = match item {
            NItem::End(_) | NItem::Full(..) => need[k + 1],
            NItem::Start(_) => match crate::refmodel::decode_header(&bytes[(*off).min(bytes.len())..]) {
                Some(h) => off + h.id_len + h.size_len,
                None => bytes.len(),
            },
            NItem::Leaf(..) | NItem::Raw(..) => match crate::refmodel::decode_header(&bytes[(*off).min(bytes.len())..]) {
                Some(h) => (off + h.id_len + h.size_len + h.size.unwrap_or(0) as usize).min(bytes.len()),
                None => bytes.len(),
            },
        };
    }
    let chunks: Vec<usize> = steps.iter().filter_map(|s| if let AStep::Chunk(m) = s { Some(*m) } else { None }).collect();
    let mut delivered = 0usize;
    for (k, nd) in need.iter().enumerate() {
        let m = if k < chunks.len() { chunks[k] } else { usize::MAX };
        delivered += m.max(1).min(65536).min(bytes.len() - delivered);
        if delivered < *nd {
            return false;
        }
    }
    true
}

fn non_empty_reads(len: usize, steps: &[AStep]) -> usize {
    // how many reads deliver data before the input is exhausted
    let mut pos = 0;
    let mut n = 0;
    let mut i = 0;
    while pos < len {
        let s = if i < steps.len() { steps[i] } else { AStep::Chunk(usize::MAX) };
        i += 1;
        if let AStep::Chunk(m) = s {
            pos += m.max(1).min(65536).min(len - pos);
            n += 1;
        }
    }
    n
}

fn check(ctx: &mut Ctx, bytes: &[u8], steps: &[AStep], set: &[u64], origin: &str, short_desc: bool) {
    let d = || format!("{} input={} buffered={:x?} async steps={:?}", origin, if short_desc { format!("<{} bytes>", bytes.len()) } else { hex(bytes) }, set, &steps[..steps.len().min(16)]);
    if !ctx.enter(&d) {
        return;
    }
    let cfg = Cfg::strict().with_buffered(set);
    let blocking = parse_slice::<V>(bytes, &cfg);
    let (obs, fused, tail) = run_async(bytes, steps, set);
    let (sitems, sterm, stail) = run_stream(bytes, steps, set);
    ctx.transitions += (obs.items.len() + sitems.len() + blocking.items.len() + 3) as u64;
    let reads = non_empty_reads(bytes.len(), steps);
    if reads >= 2 {
        ctx.nontrivial();
    }
    ctx.outcome(&(obs.items.len(), reads.min(3)));
    if !fused {
        ctx.violation("does-not-end-once", &d, "next().await returned an item after returning None");
    }
    // the two drivers must agree with each other in any case
    let stream_same = sitems == obs.item_list() && std::mem::discriminant(&sterm) == std::mem::discriminant(&obs.term);
    if stream_same && tail != stail {
        ctx.violation("stream-adapter-differs-from-next-loop-after-the-first-error", &d, &format!("next loop {} then {:?} | stream then {:?}", obs.short(), tail, stail));
    }
    if !tail.is_empty() {
        ctx.count("histories_continued_after_the_first_error", 1);
    }
    if !stream_same {
        ctx.violation("stream-adapter-differs-from-next-loop", &d, &format!("next loop {} | stream [{}] -> {}", obs.short(), sitems.iter().map(|i| i.short()).collect::<Vec<_>>().join(" "), sterm.short()));
    }
    let ahead = reads >= 2 && source_stays_ahead(bytes, steps, &blocking);
    if ahead {
        ctx.count("multi_read_schedules_on_which_the_source_stays_ahead_of_the_parser", 1);
    }
    if obs == blocking {
        ctx.count(if reads >= 2 { "multi_read_schedules_equal_to_blocking" } else { "single_read_schedules_equal_to_blocking" }, 1);
    } else if ahead {
        ctx.violation("multi-read/source-stays-ahead-of-the-parser-but-differs-from-blocking", &d, &format!("blocking {} | async {}", blocking.short(), obs.short()));
    } else if reads < 2 {
        ctx.violation("single-read-schedule/differs-from-blocking-iterator", &d, &format!("blocking {} | async {}", blocking.short(), obs.short()));
    } else {
        // known finding D17, narrowed by its defect model: the deviation must be exactly the predicted one
        let model = defect_model(bytes, steps, set);
        ctx.transitions += model.items.len() as u64 + 1;
        // ... and, independently of the model (which runs on the same library), it must have the shape of that
        // finding: up to the first difference the items and offsets are the blocking iterator's, and the first
        // difference is a premature end of input — an UnexpectedEOF or a clean end instead of more items, an End that
        // closes a master early, or a buffered master (same id, same offset) closed early
        let k = obs.items.iter().zip(blocking.items.iter()).take_while(|(a, b)| a == b).count();
        let shaped = if k == obs.items.len() {
            matches!(obs.term, Term::Done | Term::Err(NErr::Eof { .. }))
        } else {
            match (&obs.items[k], blocking.items.get(k)) {
                ((NItem::End(_), _), _) => true,
                ((NItem::Full(a, _), oa), Some((NItem::Full(b, _), ob))) => a == b && oa == ob,
                // (the blocking iterator emits nothing of a buffered master it cannot complete)
                ((NItem::Full(..), _), None) => matches!(blocking.term, Term::Err(_)),
                _ => false,
            }
        };
        if !shaped {
            ctx.violation("multi-read/first-difference-is-not-a-premature-end-of-input", &d, &format!("blocking {} | async {} | {} items agree", blocking.short(), obs.short(), k));
        } else if obs == model {
            ctx.violation("multi-read/explained-by-one-read-per-call", &d, &format!("blocking {} | async {}", blocking.short(), obs.short()));
        } else {
            ctx.violation("multi-read/differs-from-blocking-and-from-the-one-read-per-call-model", &d, &format!("blocking {} | async {} | model {}", blocking.short(), obs.short(), model.short()));
        }
    }
    ctx.validated += 1;
    ctx.leave();
}

pub fn run(ctx: &mut Ctx) {
    let rs = v_refspec();
    assert_spec_matches::<V>(&rs);
    let quick = ctx.quick();
    let max_comp = ctx.tier.pick(10, 13);
    ctx.meta("rule", "cases: (input, buffered set, async read schedule); inputs = documents of T∘E and their truncations / corruptions, documents > 64 KiB (one > 128 KiB with a 200 KB item); schedules = ALL compositions of the input into async read results for inputs up to the composition bound (+ Pending with self-wake before reads), <= 2 short reads otherwise; buffered sets: none, each single master present, all; both the next().await loop (offsets compared) and into_stream() (items compared) on a single-threaded executor. Oracle: items, offsets and first error equal the blocking iterator over the same bytes, ending once. Known finding D17 is narrowed by a defect model (blocking iterator fed one chunk per next() call): a multi-read schedule may deviate only exactly as that model predicts and, independently of the model, only by a premature end of input (items and offsets equal the blocking iterator's up to the first difference, which is an UnexpectedEOF / clean end / early End / early-closed Full at the same offset); single-read schedules, the stream adapter's agreement with the loop (also over the 4 calls that follow the first error: an error does not end the sequence), and termination-once must hold outright. Non-trivial: schedules with >= 2 non-empty reads.");
    ctx.meta("bounds", &format!("all compositions for inputs <= {} bytes; documents <= {} elements; 2 inputs > 64 KiB", max_comp, ctx.tier.pick(3, 4)));
    ctx.meta("assumptions", "single-threaded futures executor; a Pending poll wakes itself immediately");
    for c in ["single_read_schedules_equal_to_blocking", "multi_read_schedules_equal_to_blocking", "pending_polls", "histories_continued_after_the_first_error"] {
        ctx.expect_nonzero(c);
    }
    let p = DocParams { max_nodes: ctx.tier.pick(3, 4), globals: vec![ID_VOID], exclude: vec![], unknown_subsets: true, devs: 0, payload_classes: false, big_payloads: false, noncanonical: false, width_devs: false, extras: !quick, all_widths: false };
    docs::for_each_doc(ctx, &rs, &p, &mut |ctx, doc| {
        let (bytes, lay) = ref_encode(doc);
        let mut present: Vec<u64> = Vec::new();
        for l in &lay {
            if l.is_master && !present.contains(&l.id) {
                present.push(l.id);
            }
        }
        let mut sets: Vec<Vec<u64>> = vec![vec![]];
        for m in &present {
            sets.push(vec![*m]);
        }
        if present.len() > 1 {
            sets.push(present.clone());
        }
        let mut inputs: Vec<(Vec<u8>, &str)> = vec![(bytes.clone(), "doc")];
        if bytes.len() <= 9 || !quick {
            let bounds: Vec<usize> = lay.iter().map(|l| l.tag_start).collect();
            docs::for_each_mutation(&bytes, &bounds, &[0x00, 0xff], &[MutKind::Truncate, MutKind::Replace], &mut |m, _, _| {
                inputs.push((m.to_vec(), "mut"));
                true
            });
        }
        for (inp, origin) in &inputs {
            for set in &sets {
                if *origin == "mut" && set.len() == 1 {
                    continue;
                }
                if inp.len() <= max_comp {
                    gen::compositions(inp.len(), &mut |parts| {
                        let steps: Vec<AStep> = parts.iter().map(|p| AStep::Chunk(*p)).collect();
                        check(ctx, inp, &steps, set, origin, false);
                        !ctx.should_stop()
                    });
                } else {
                    for k in 0..3usize {
                        for m in [1usize, 2, 3, 7] {
                            let mut s = vec![AStep::Chunk(usize::MAX); k];
                            s.push(AStep::Chunk(m));
                            check(ctx, inp, &s, set, origin, false);
                        }
                    }
                }
                // Pending deviations around a whole-input read and around short reads
                for pend in [vec![AStep::Pending], vec![AStep::Pending, AStep::Pending], vec![AStep::Pending, AStep::Chunk(usize::MAX), AStep::Pending], vec![AStep::Chunk(2), AStep::Pending, AStep::Pending, AStep::Chunk(1), AStep::Pending]] {
                    ctx.count("pending_polls", 1);
                    check(ctx, inp, &pend, set, origin, false);
                }
            }
        }
        !ctx.should_stop()
    });
    // inputs larger than the 64 KiB transfer buffer
    let mut ch = Vec::new();
    for i in 0..30000u64 {
        ch.push(Node::leaf(ID_U, Val::U(i % 50000)));
    }
    let mut root = Node::master(ID_ROOT, ch);
    root.size = SizeEnc::Width(4);
    let big1 = vec![root];
    let big2 = vec![Node::master(ID_ROOT, vec![Node::leaf(ID_U, Val::U(7)), Node::leaf(ID_B, Val::B(vec![0x77; 70000])), Node::leaf(ID_U, Val::U(8))])];
    let mut ch3 = Vec::new();
    for i in 0..22000u64 {
        ch3.push(Node::leaf(ID_U, Val::U(i % 40000)));
    }
    ch3.push(Node::leaf(ID_B, Val::B(vec![0x5d; 200_000])));
    ch3.push(Node::leaf(ID_U, Val::U(9)));
    let big3 = vec![Node::master(ID_ROOT, ch3)];
    for (i, doc) in [big1, big2, big3].iter().enumerate() {
        let (bytes, _) = ref_encode(doc);
        let scheds: Vec<Vec<AStep>> = vec![vec![], vec![AStep::Chunk(65536)], vec![AStep::Chunk(65535), AStep::Chunk(1)], vec![AStep::Chunk(1)], vec![AStep::Pending, AStep::Chunk(70000)], vec![AStep::Chunk(4096); 40]];
        for (j, s) in scheds.iter().enumerate() {
            if ctx.mine((i * 8 + j) as u64) {
                for set in [vec![], vec![ID_ROOT]] {
                    check(ctx, &bytes, s, &set, "big", true);
                }
            }
        }
    }
}
