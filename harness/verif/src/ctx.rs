//! Worker context (deterministic enumeration bookkeeping) and the supervisor that shards a check over
//! worker subprocesses, merges their counters, matches known findings and writes the evidence file.

use std::collections::{BTreeMap, BTreeSet, HashSet};
use std::io::{BufRead, BufReader, Write};
use std::process::{Command, Stdio};
use std::sync::atomic::{AtomicBool, AtomicU64, Ordering};
use std::sync::{Arc, Mutex};
use std::time::{Duration, Instant};

#[derive(Clone, Copy, Debug, PartialEq, Eq)]
pub enum Tier {
    Quick,
    Thorough,
}

impl Tier {
    pub fn name(self) -> &'static str {
        match self {
            Tier::Quick => "quick",
            Tier::Thorough => "thorough",
        }
    }
    pub fn parse(s: &str) -> Tier {
        match s {
            "quick" => Tier::Quick,
            "thorough" => Tier::Thorough,
            _ => panic!("machinery: unknown tier {}", s),
        }
    }
    pub fn pick<T>(self, q: T, t: T) -> T {
        match self {
            Tier::Quick => q,
            Tier::Thorough => t,
        }
    }
}

#[derive(Clone, Copy, Debug, PartialEq, Eq)]
pub enum Mode {
    Normal,
    /// print every case descriptor before executing it, starting at index
    Careful(u64),
    /// execute only this case index, verbosely
    Only(u64),
}

pub static PROGRESS: AtomicU64 = AtomicU64::new(0);
pub static IN_CASE: AtomicBool = AtomicBool::new(false);

pub struct Viol {
    pub count: u64,
    pub idx: u64,
    pub desc: String,
    pub detail: String,
}

pub struct Ctx {
    pub prop: String,
    pub tier: Tier,
    pub shard: u64,
    pub nshards: u64,
    pub mode: Mode,
    idx: u64,
    cur: u64,
    pub evals: u64,
    pub nontrivial: u64,
    pub transitions: u64,
    pub validated: u64,
    viol: BTreeMap<String, Viol>,
    total_viol: u64,
    samples: Vec<(u64, String)>,
    counters: BTreeMap<String, u64>,
    outcomes: HashSet<u64>,
    meta: BTreeMap<String, String>,
    expect: BTreeSet<String>,
    start: Instant,
    cap: Duration,
    pub capped: bool,
    stop: bool,
    out: std::io::Stdout,
}

fn is_sample_idx(i: u64) -> bool {
    if i < 2 {
        return true;
    }
    let mut p = 10u64;
    while p <= i {
        if i == p || i == 3 * p {
            return true;
        }
        p *= 10;
    }
    false
}

pub fn one_line(s: &str) -> String {
    s.replace('\\', "\\\\").replace('\n', "\\n").replace('\t', " ")
}

impl Ctx {
    pub fn new(prop: &str, tier: Tier, shard: u64, nshards: u64, mode: Mode) -> Ctx {
        let cap_s: u64 = std::env::var("VERIF_CAP_S").ok().and_then(|s| s.parse().ok()).unwrap_or(tier.pick(240, 3600));
        Ctx {
            prop: prop.to_string(),
            tier,
            shard,
            nshards,
            mode,
            idx: 0,
            cur: 0,
            evals: 0,
            nontrivial: 0,
            transitions: 0,
            validated: 0,
            viol: BTreeMap::new(),
            total_viol: 0,
            samples: Vec::new(),
            counters: BTreeMap::new(),
            outcomes: HashSet::new(),
            meta: BTreeMap::new(),
            expect: BTreeSet::new(),
            start: Instant::now(),
            cap: Duration::from_secs(cap_s),
            capped: false,
            stop: false,
            out: std::io::stdout(),
        }
    }

    /// is the i-th element of a sharded outer loop ours?
    pub fn mine(&self, i: u64) -> bool {
        i % self.nshards == self.shard
    }

    pub fn quick(&self) -> bool {
        self.tier == Tier::Quick
    }

    /// should outer loops stop (cap hit, replay done, flood of violations)?
    pub fn should_stop(&self) -> bool {
        self.stop
    }

    /// Announce a case. Returns false if it must be skipped (replay modes).
    pub fn enter(&mut self, desc: &dyn Fn() -> String) -> bool {
        let i = self.idx;
        self.idx += 1;
        if self.stop {
            return false;
        }
        match self.mode {
            Mode::Only(k) => {
                if i != k {
                    if i > k {
                        self.stop = true;
                    }
                    return false;
                }
                let _ = writeln!(self.out, "CASE {} {}", i, one_line(&desc()));
            }
            Mode::Careful(from) => {
                if i < from {
                    return false;
                }
                let _ = writeln!(self.out, "C {}\t{}", i, one_line(&desc()));
                let _ = self.out.flush();
            }
            Mode::Normal => {}
        }
        PROGRESS.store(i, Ordering::Relaxed);
        if is_sample_idx(i) && self.samples.len() < 24 {
            self.samples.push((i, desc()));
        }
        if i & 0x3fff == 0 {
            if i & 0xffff == 0 {
                let _ = writeln!(self.out, "P {}", i);
                let _ = self.out.flush();
            }
            if self.start.elapsed() > self.cap {
                self.capped = true;
                self.stop = true;
                return false;
            }
        }
        self.cur = i;
        self.evals += 1;
        IN_CASE.store(true, Ordering::Relaxed);
        true
    }

    pub fn leave(&mut self) {
        IN_CASE.store(false, Ordering::Relaxed);
    }

    pub fn nontrivial(&mut self) {
        self.nontrivial += 1;
    }

    pub fn count(&mut self, class: &str, n: u64) {
        if let Some(c) = self.counters.get_mut(class) {
            *c += n;
        } else {
            self.counters.insert(class.to_string(), n);
        }
    }

    /// vacuity guard: the merged count of this class must be non-zero or the run is a machinery failure
    pub fn expect_nonzero(&mut self, class: &str) {
        self.expect.insert(class.to_string());
        self.counters.entry(class.to_string()).or_insert(0);
    }

    pub fn outcome<H: std::hash::Hash>(&mut self, h: &H) {
        if self.outcomes.len() < 200_000 {
            use std::hash::Hasher;
            let mut s = std::collections::hash_map::DefaultHasher::new();
            h.hash(&mut s);
            self.outcomes.insert(s.finish());
        }
    }

    pub fn meta(&mut self, k: &str, v: &str) {
        self.meta.insert(k.to_string(), v.to_string());
    }

    /// record a violation of the property on the current case
    pub fn violation(&mut self, key: &str, desc: &dyn Fn() -> String, detail: &str) {
        self.total_viol += 1;
        if let Mode::Only(_) = self.mode {
            let _ = writeln!(self.out, "OUTCOME violation key={} detail={}", key, one_line(detail));
        }
        match self.viol.get_mut(key) {
            Some(v) => v.count += 1,
            None => {
                if self.viol.len() < 40 {
                    self.viol.insert(key.to_string(), Viol { count: 1, idx: self.cur, desc: desc(), detail: detail.to_string() });
                } else {
                    let v = self.viol.entry("overflow/too-many-classes".to_string()).or_insert(Viol { count: 0, idx: self.cur, desc: desc(), detail: detail.to_string() });
                    v.count += 1;
                }
            }
        }
    }

    pub fn has_violations(&self) -> bool {
        self.total_viol > 0
    }

    /// Print everything gathered so far; if the worker dies later, the supervisor keeps these numbers.
    pub fn checkpoint(&mut self) {
        self.emit(false);
    }

    pub fn finish(mut self) {
        self.emit(true);
    }

    fn emit(&mut self, last: bool) {
        IN_CASE.store(false, Ordering::Relaxed);
        let o = &mut self.out;
        if let Mode::Only(k) = self.mode {
            if self.total_viol == 0 {
                let _ = writeln!(o, "OUTCOME ok (case {} {})", k, if self.evals == 0 { "NOT FOUND" } else { "executed" });
            }
        }
        let _ = writeln!(o, "N evals {}", self.evals);
        let _ = writeln!(o, "N nontrivial {}", self.nontrivial);
        let _ = writeln!(o, "N transitions {}", self.transitions);
        let _ = writeln!(o, "N validated {}", self.validated);
        let _ = writeln!(o, "N capped {}", self.capped as u64);
        for (k, v) in &self.counters {
            let _ = writeln!(o, "K {}\t{}", k, v);
        }
        for k in &self.expect {
            let _ = writeln!(o, "X {}", k);
        }
        for (k, v) in &self.meta {
            let _ = writeln!(o, "M {}\t{}", k, one_line(v));
        }
        for (i, s) in &self.samples {
            let _ = writeln!(o, "S {}\t{}", i, one_line(s));
        }
        for h in &self.outcomes {
            let _ = writeln!(o, "O {}", h);
        }
        for (k, v) in &self.viol {
            let _ = writeln!(o, "V {}\t{}\t{}\t{}\t{}", k, v.count, v.idx, one_line(&v.desc), one_line(&v.detail));
        }
        let _ = writeln!(o, "{}", if last { "DONE" } else { "CHECKPOINT" });
        let _ = o.flush();
    }
}

// ---------------------------------------------------------------------------------------------
// supervisor

#[derive(Default)]
struct WorkerOut {
    nums: BTreeMap<String, u64>,
    counters: BTreeMap<String, u64>,
    expect: BTreeSet<String>,
    meta: BTreeMap<String, String>,
    samples: Vec<(u64, String)>,
    outcomes: Vec<u64>,
    viol: Vec<(String, u64, u64, String, String)>,
    done: bool,
    last_p: u64,
    last_c: Option<(u64, String)>,
    hang: Option<u64>,
    machinery: Option<String>,
    checkpointed: bool,
}

fn parse_line(w: &mut WorkerOut, line: &str) {
    let (tag, rest) = match line.split_once(' ') {
        Some(x) => x,
        None => (line, ""),
    };
    match tag {
        "P" => w.last_p = rest.parse().unwrap_or(w.last_p),
        "C" => {
            if let Some((i, d)) = rest.split_once('\t') {
                w.last_c = Some((i.parse().unwrap_or(0), d.to_string()));
            }
        }
        "N" => {
            if w.checkpointed && rest.starts_with("evals ") {
                w.samples.clear();
                w.outcomes.clear();
                w.viol.clear();
                w.checkpointed = false;
            }
            if let Some((k, v)) = rest.split_once(' ') {
                w.nums.insert(k.to_string(), v.parse().unwrap_or(0));
            }
        }
        "K" => {
            if let Some((k, v)) = rest.split_once('\t') {
                w.counters.insert(k.to_string(), v.parse().unwrap_or(0));
            }
        }
        "X" => {
            w.expect.insert(rest.to_string());
        }
        "M" => {
            if let Some((k, v)) = rest.split_once('\t') {
                w.meta.insert(k.to_string(), v.to_string());
            }
        }
        "S" => {
            if let Some((i, d)) = rest.split_once('\t') {
                w.samples.push((i.parse().unwrap_or(0), d.to_string()));
            }
        }
        "O" => {
            if let Ok(h) = rest.parse() {
                w.outcomes.push(h);
            }
        }
        "V" => {
            let f: Vec<&str> = rest.splitn(5, '\t').collect();
            if f.len() == 5 {
                w.viol.push((f[0].to_string(), f[1].parse().unwrap_or(1), f[2].parse().unwrap_or(0), f[3].to_string(), f[4].to_string()));
            }
        }
        "HANG" => w.hang = rest.parse().ok(),
        "MACHINERY" => w.machinery = Some(rest.to_string()),
        "CHECKPOINT" => {
            w.checkpointed = true;
        }
        "DONE" => w.done = true,
        _ => {}
    }
}

fn run_worker(prop: &str, tier: Tier, shard: u64, n: u64, extra: &[String]) -> (WorkerOut, Option<i32>) {
    let exe = std::env::current_exe().expect("machinery: current_exe");
    let mut cmd = Command::new(exe);
    cmd.arg("worker").arg(prop).arg(tier.name()).arg(format!("{}/{}", shard, n));
    for e in extra {
        cmd.arg(e);
    }
    // glibc: do not give the heap top back to the kernel between cases (a 64 KiB iterator buffer per case
    // otherwise costs a brk shrink/grow and fresh page faults every time)
    cmd.env("MALLOC_TRIM_THRESHOLD_", "1073741824").env("MALLOC_TOP_PAD_", "33554432");
    cmd.stdout(Stdio::piped()).stderr(Stdio::inherit());
    let mut child = cmd.spawn().expect("machinery: spawn worker");
    let stdout = child.stdout.take().unwrap();
    let mut w = WorkerOut::default();
    for line in BufReader::new(stdout).lines() {
        match line {
            Ok(l) => parse_line(&mut w, &l),
            Err(_) => break,
        }
    }
    let st = child.wait().expect("machinery: wait worker");
    (w, st.code())
}

pub fn json_str(s: &str) -> String {
    let mut o = String::with_capacity(s.len() + 2);
    o.push('"');
    for c in s.chars() {
        match c {
            '"' => o.push_str("\\\""),
            '\\' => o.push_str("\\\\"),
            '\n' => o.push_str("\\n"),
            '\r' => o.push_str("\\r"),
            '\t' => o.push_str("\\t"),
            c if (c as u32) < 0x20 => o.push_str(&format!("\\u{:04x}", c as u32)),
            c => o.push(c),
        }
    }
    o.push('"');
    o
}

fn key_hash(s: &str) -> String {
    // FNV-1a, stable across runs
    let mut h: u64 = 0xcbf29ce484222325;
    for b in s.bytes() {
        h ^= b as u64;
        h = h.wrapping_mul(0x100000001b3);
    }
    format!("{:016x}", h)
}

pub struct Known {
    pub key: String,
    pub text: String,
}

pub fn load_known(prop: &str) -> Vec<Known> {
    let path = "/verif/KNOWN_FINDINGS.txt";
    let mut out = Vec::new();
    if let Ok(s) = std::fs::read_to_string(path) {
        for line in s.lines() {
            let line = line.trim();
            if let Some(rest) = line.strip_prefix("known:") {
                let mut p = None;
                let mut k = None;
                let mut text = Vec::new();
                for tok in rest.split_whitespace() {
                    if let Some(v) = tok.strip_prefix("property=") {
                        p = Some(v.to_string());
                    } else if let Some(v) = tok.strip_prefix("key=") {
                        if k.is_none() {
                            k = Some(v.to_string());
                        } else {
                            text.push(tok);
                        }
                    } else {
                        text.push(tok);
                    }
                }
                if let (Some(p), Some(k)) = (p, k) {
                    if p == prop {
                        out.push(Known { key: k, text: text.join(" ") });
                    }
                }
            }
        }
    }
    out
}

/// Run a whole check: shard, merge, write evidence, print verdict lines. Returns the process exit code.
pub fn supervise(prop: &str, tier: Tier) -> i32 {
    let t0 = Instant::now();
    let nshards: u64 = std::env::var("VERIF_WORKERS").ok().and_then(|s| s.parse().ok()).unwrap_or(16);
    let seed: i64 = std::env::var("VERIF_SEED").ok().and_then(|s| s.parse().ok()).unwrap_or(0);
    let results: Arc<Mutex<Vec<(u64, WorkerOut, Option<i32>)>>> = Arc::new(Mutex::new(Vec::new()));
    let mut handles = Vec::new();
    for s in 0..nshards {
        let results = results.clone();
        let prop = prop.to_string();
        handles.push(std::thread::spawn(move || {
            let (w, code) = run_worker(&prop, tier, s, nshards, &[]);
            results.lock().unwrap().push((s, w, code));
        }));
    }
    for h in handles {
        let _ = h.join();
    }
    let mut results = std::mem::take(&mut *results.lock().unwrap());
    results.sort_by_key(|r| r.0);

    let mut nums: BTreeMap<String, u64> = BTreeMap::new();
    let mut counters: BTreeMap<String, u64> = BTreeMap::new();
    let mut expect: BTreeSet<String> = BTreeSet::new();
    let mut meta: BTreeMap<String, String> = BTreeMap::new();
    let mut samples: Vec<String> = Vec::new();
    let mut outcomes: HashSet<u64> = HashSet::new();
    // key -> (count, shard, idx, desc, detail)
    let mut viol: BTreeMap<String, (u64, u64, u64, String, String)> = BTreeMap::new();
    let mut machinery: Vec<String> = Vec::new();

    for (shard, w, code) in results.iter_mut() {
        if let Some(m) = &w.machinery {
            machinery.push(format!("worker {} machinery failure: {}", shard, m));
            continue;
        }
        if !w.done || *code != Some(0) {
            // abnormal death (abort, signal, hang): re-run carefully from the last progress mark to name the culprit
            let from = w.last_p;
            let (w2, code2) = run_worker(prop, tier, *shard, nshards, &["--careful".to_string(), from.to_string()]);
            if let Some(m) = &w2.machinery {
                machinery.push(format!("worker {} machinery failure in careful re-run: {}", shard, m));
                continue;
            }
            if w2.done && code2 == Some(0) {
                machinery.push(format!("worker {} died (code {:?}) but the careful re-run from case {} completed: non-deterministic failure", shard, code, from));
                continue;
            }
            let what = if w2.hang.is_some() || w.hang.is_some() { "hang" } else { "abort" };
            match w2.last_c {
                Some((idx, desc)) => {
                    let key = format!("{}/library-call-did-not-return", what);
                    let e = viol.entry(key).or_insert((0, *shard, idx, desc, format!("worker process ended abnormally (exit code {:?}) while executing this case: {}", code2, what)));
                    e.0 += 1;
                }
                None => machinery.push(format!("worker {} died (code {:?}) outside any case", shard, code2)),
            }
            // fall through: whatever the worker reported at its last checkpoint still counts
        }
        for (k, v) in &w.nums {
            *nums.entry(k.clone()).or_insert(0) += v;
        }
        for (k, v) in &w.counters {
            *counters.entry(k.clone()).or_insert(0) += v;
        }
        expect.extend(w.expect.iter().cloned());
        for (k, v) in &w.meta {
            meta.entry(k.clone()).or_insert_with(|| v.clone());
        }
        if *shard == 0 || *shard == nshards / 2 || *shard == nshards - 1 {
            for (i, d) in &w.samples {
                if samples.len() < 40 {
                    samples.push(format!("shard {} case {}: {}", shard, i, d));
                }
            }
        }
        outcomes.extend(w.outcomes.iter().copied());
        for (k, c, idx, desc, detail) in &w.viol {
            let e = viol.entry(k.clone()).or_insert((0, *shard, *idx, desc.clone(), detail.clone()));
            e.0 += c;
        }
    }

    // vacuity guards
    for k in &expect {
        if counters.get(k).copied().unwrap_or(0) == 0 && nums.get("capped").copied().unwrap_or(0) == 0 {
            machinery.push(format!("vacuity guard: class '{}' was never exercised", k));
        }
    }

    // known findings
    let known = load_known(prop);
    let mut unlisted: Vec<(String, (u64, u64, u64, String, String))> = Vec::new();
    let mut known_hit: Vec<(String, u64, String)> = Vec::new();
    for (k, v) in &viol {
        if let Some(kn) = known.iter().find(|kn| kn.key == *k) {
            known_hit.push((k.clone(), v.0, kn.text.clone()));
        } else {
            unlisted.push((k.clone(), v.clone()));
        }
    }

    let wall = t0.elapsed().as_secs_f64();
    let evals = nums.get("evals").copied().unwrap_or(0);
    let transitions = nums.get("transitions").copied().unwrap_or(0);
    let validated = nums.get("validated").copied().unwrap_or(0);
    let nontrivial = nums.get("nontrivial").copied().unwrap_or(0);
    let capped = nums.get("capped").copied().unwrap_or(0) > 0;

    // replay files
    let _ = std::fs::create_dir_all(format!("/verif/replays/{}", prop));
    let mut viol_lines = Vec::new();
    for (k, v) in &unlisted {
        let path = format!("/verif/replays/{}/{}.json", prop, key_hash(k));
        let body = format!(
            "{{\n \"property_id\": {},\n \"key\": {},\n \"tier\": {},\n \"shard\": {},\n \"nshards\": {},\n \"case_index\": {},\n \"count_in_run\": {},\n \"case\": {},\n \"detail\": {},\n \"replay_cmd\": {}\n}}\n",
            json_str(prop),
            json_str(k),
            json_str(tier.name()),
            v.1,
            nshards,
            v.2,
            v.0,
            json_str(&v.3),
            json_str(&v.4),
            json_str(&format!("/verif/run replay {}", path))
        );
        let _ = std::fs::write(&path, body);
        viol_lines.push(format!("VIOLATION property={} replay={}", prop, path));
        println!("  class {} ({} cases) first: {}", k, v.0, v.3);
        println!("    {}", v.4);
    }

    // evidence
    let mut ev = String::new();
    ev.push_str("{\n");
    ev.push_str(&format!(" \"property_id\": {},\n", json_str(prop)));
    ev.push_str(&format!(" \"tier\": {},\n", json_str(tier.name())));
    ev.push_str(&format!(" \"seed\": {},\n", seed));
    ev.push_str(" \"level\": \"model_checking\",\n");
    ev.push_str(" \"coverage\": {\n");
    ev.push_str(&format!("  \"states\": {},\n", evals + transitions));
    ev.push_str(&format!("  \"transitions\": {},\n", transitions));
    ev.push_str(&format!("  \"traces_validated_against_impl\": {},\n", validated));
    ev.push_str(&format!("  \"evaluations\": {},\n", evals));
    ev.push_str(&format!("  \"distinct_nontrivial\": {},\n", nontrivial));
    ev.push_str(&format!("  \"rule\": {},\n", json_str(meta.get("rule").map(|s| s.as_str()).unwrap_or(""))));
    ev.push_str(&format!("  \"bounds\": {},\n", json_str(meta.get("bounds").map(|s| s.as_str()).unwrap_or(""))));
    ev.push_str(&format!("  \"explanation\": {},\n", json_str("states = distinct history prefixes executed on the real library object (one initial state per case plus one per library call); transitions = library calls executed; traces_validated_against_impl = executions whose every observation was compared with the reference / differential oracle; enumeration is deterministic and without repetition")));
    ev.push_str(&format!("  \"exhaustive\": {},\n", if capped || !machinery.is_empty() { "false" } else { "true" }));
    if capped {
        ev.push_str("  \"cap_hit\": \"wall-clock safety cap inside the engine; the enumerated prefix of the space was fully checked\",\n");
    }
    ev.push_str(&format!("  \"distinct_outcomes\": {},\n", outcomes.len()));
    ev.push_str(&format!("  \"workers\": {},\n", nshards));
    ev.push_str("  \"classes\": {");
    ev.push_str(&counters.iter().map(|(k, v)| format!("{}: {}", json_str(k), v)).collect::<Vec<_>>().join(", "));
    ev.push_str("},\n");
    ev.push_str("  \"known_findings_reproduced\": {");
    ev.push_str(&known_hit.iter().map(|(k, c, _)| format!("{}: {}", json_str(k), c)).collect::<Vec<_>>().join(", "));
    ev.push_str("},\n");
    ev.push_str("  \"violation_classes\": [");
    ev.push_str(&unlisted.iter().map(|(k, v)| format!("{{\"key\": {}, \"cases\": {}, \"first\": {}}}", json_str(k), v.0, json_str(&v.3))).collect::<Vec<_>>().join(", "));
    ev.push_str("],\n");
    if samples.is_empty() {
        samples.push("<no case executed>".to_string());
    }
    ev.push_str("  \"samples\": [\n");
    ev.push_str(&samples.iter().map(|s| format!("   {}", json_str(s))).collect::<Vec<_>>().join(",\n"));
    ev.push_str("\n  ]\n");
    ev.push_str(" },\n");
    let assumptions: Vec<String> = meta.get("assumptions").map(|s| s.split(" || ").map(|x| x.to_string()).collect()).unwrap_or_default();
    ev.push_str(&format!(" \"assumptions\": [{}],\n", assumptions.iter().map(|s| json_str(s)).collect::<Vec<_>>().join(", ")));
    ev.push_str(&format!(" \"wall_s\": {:.2},\n", wall));
    ev.push_str(&format!(" \"violations\": {}\n", unlisted.iter().map(|x| x.1 .0).sum::<u64>()));
    ev.push_str("}\n");
    let _ = std::fs::create_dir_all("/verif/evidence");
    if let Err(e) = std::fs::write(format!("/verif/evidence/{}.json", prop), ev) {
        machinery.push(format!("cannot write evidence: {}", e));
    }

    println!(
        "{} {}: cases={} calls={} nontrivial={} outcomes={} wall={:.1}s{}",
        prop,
        tier.name(),
        evals,
        transitions,
        nontrivial,
        outcomes.len(),
        wall,
        if capped { " CAPPED" } else { "" }
    );
    for (k, v) in &counters {
        println!("  class {:<48} {}", k, v);
    }
    for (k, c, text) in &known_hit {
        println!("KNOWN-FINDING: property={} key={} {} ({} cases)", prop, k, text, c);
    }
    for l in &viol_lines {
        println!("{}", l);
    }
    for m in &machinery {
        println!("MACHINERY-FAILURE: {}", m);
    }
    if !viol_lines.is_empty() {
        1
    } else if !machinery.is_empty() {
        2
    } else {
        0
    }
}

/// watchdog inside a worker: a case that does not finish within the limit is reported as a hang
pub fn start_watchdog(limit_s: u64) {
    std::thread::spawn(move || {
        let mut last = u64::MAX;
        let mut since = Instant::now();
        loop {
            std::thread::sleep(Duration::from_millis(500));
            let p = PROGRESS.load(Ordering::Relaxed);
            let in_case = IN_CASE.load(Ordering::Relaxed);
            if p != last || !in_case {
                last = p;
                since = Instant::now();
            } else if since.elapsed() > Duration::from_secs(limit_s) {
                println!("HANG {}", p);
                let _ = std::io::stdout().flush();
                std::process::exit(3);
            }
        }
    });
}

pub fn panic_msg(p: Box<dyn std::any::Any + Send>) -> String {
    let mut s = if let Some(s) = p.downcast_ref::<&str>() {
        s.to_string()
    } else if let Some(s) = p.downcast_ref::<String>() {
        s.clone()
    } else {
        "<non-string panic>".to_string()
    };
    s.truncate(100);
    s
}
