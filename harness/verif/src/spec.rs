//! Specifications used by the checks.
//!
//! * `V`  — the main schema, produced by the *real* `easy_ebml!` macro.
//! * `RT` — a runtime, table-driven specification (thread-local table) for "all specifications" quantifiers.
//! * `RefSpec` — the boring reference table both are compared against.

use std::cell::Cell;

use ebml_iterable::specs::{easy_ebml, EbmlSpecification, EbmlTag, Master, PathPart, TagDataType};

pub trait SpecT: EbmlSpecification<Self> + EbmlTag<Self> + Clone + std::fmt::Debug + Sized + 'static {}
impl<T> SpecT for T where T: EbmlSpecification<T> + EbmlTag<T> + Clone + std::fmt::Debug + Sized + 'static {}

easy_ebml! {
    #[derive(Clone, Debug, PartialEq)]
    pub enum V {
        Ebml                 : Master      = 0x1a45dfa3,
        Ebml/EU              : UnsignedInt = 0x4286,
        Root                 : Master      = 0x81,
        Root/U               : UnsignedInt = 0x82,
        Root/I               : Integer     = 0x83,
        Root/F               : Float       = 0x84,
        Root/S               : Utf8        = 0x86,
        Root/B               : Binary      = 0x88,
        Root/M               : Master      = 0x8d,
        Root/M/MU            : UnsignedInt = 0x8e,
        Root/M/N             : Master      = 0x4087,
        Root/M/N/NU          : UnsignedInt = 0x8f,
        Root/M/N/K           : Master      = 0x2a0001,
        Root/M/N/K/KU        : UnsignedInt = 0x8b,
        Root/M/N/K/L         : Master      = 0x0100000000000002,
        Root/M/N/K/L/LB      : Binary      = 0x8c,
        Root/P               : Master      = 0x8a,
        Root/P/PU            : UnsignedInt = 0x89,
        (1-2)/Tag            : Binary      = 0x87,
    }
}

// A second macro-derived specification, with global placeholders in trailing and intermediate position.
easy_ebml! {
    #[derive(Clone, Debug, PartialEq)]
    pub enum W {
        A                    : Master      = 0x91,
        A/AU                 : UnsignedInt = 0xa1,
        A/B                  : Master      = 0x4092,
        A/B/BU               : UnsignedInt = 0xa2,
        A/B/C                : Master      = 0x209393,
        A/B/C/CU             : UnsignedInt = 0xa3,
        A/(1-2)/K            : Master      = 0x94,
        A/(1-2)/K/KU         : UnsignedInt = 0xa4,
        A/(1-2)/K/(-1)/L     : Master      = 0x95,
        A/(1-2)/K/(-1)/L/LU  : UnsignedInt = 0xa5,
        (0-1)/G              : Master      = 0x96,
        (0-1)/G/GU           : UnsignedInt = 0xa6,
        (2-3)/H              : Binary      = 0xa7,
    }
}

pub fn w_refspec() -> RefSpec {
    use PP::{Glob, Id};
    let g12 = Glob(Some(1), Some(2));
    let gm1 = Glob(None, Some(1));
    let g01 = Glob(Some(0), Some(1));
    RefSpec {
        elems: vec![
            ed("A", 0x91, Ty::Master, &[]),
            ed("AU", 0xa1, Ty::U, &[Id(0x91)]),
            ed("B", 0x4092, Ty::Master, &[Id(0x91)]),
            ed("BU", 0xa2, Ty::U, &[Id(0x91), Id(0x4092)]),
            ed("C", 0x209393, Ty::Master, &[Id(0x91), Id(0x4092)]),
            ed("CU", 0xa3, Ty::U, &[Id(0x91), Id(0x4092), Id(0x209393)]),
            ed("K", 0x94, Ty::Master, &[Id(0x91), g12]),
            ed("KU", 0xa4, Ty::U, &[Id(0x91), g12, Id(0x94)]),
            ed("L", 0x95, Ty::Master, &[Id(0x91), g12, Id(0x94), gm1]),
            ed("LU", 0xa5, Ty::U, &[Id(0x91), g12, Id(0x94), gm1, Id(0x95)]),
            ed("G", 0x96, Ty::Master, &[g01]),
            ed("GU", 0xa6, Ty::U, &[g01, Id(0x96)]),
            ed("H", 0xa7, Ty::B, &[Glob(Some(2), Some(3))]),
            ed("Crc32", ID_CRC, Ty::B, &[PP::Glob(Some(1), None)]),
            ed("Void", ID_VOID, Ty::B, &[PP::Glob(None, None)]),
        ],
    }
}

pub const ID_EBML: u64 = 0x1a45dfa3;
pub const ID_EU: u64 = 0x4286;
pub const ID_ROOT: u64 = 0x81;
pub const ID_U: u64 = 0x82;
pub const ID_I: u64 = 0x83;
pub const ID_F: u64 = 0x84;
pub const ID_S: u64 = 0x86;
pub const ID_B: u64 = 0x88;
pub const ID_M: u64 = 0x8d;
pub const ID_MU: u64 = 0x8e;
pub const ID_N: u64 = 0x4087;
pub const ID_NU: u64 = 0x8f;
pub const ID_K: u64 = 0x2a0001;
pub const ID_KU: u64 = 0x8b;
pub const ID_L: u64 = 0x0100000000000002;
pub const ID_LB: u64 = 0x8c;
pub const ID_P: u64 = 0x8a;
pub const ID_PU: u64 = 0x89;
pub const ID_TAG: u64 = 0x87;
pub const ID_VOID: u64 = 0xec;
pub const ID_CRC: u64 = 0xbf;

#[derive(Clone, Copy, Debug, PartialEq, Eq, Hash, PartialOrd, Ord)]
pub enum Ty {
    Master,
    U,
    I,
    F,
    S,
    B,
}

impl Ty {
    pub fn to_lib(self) -> TagDataType {
        match self {
            Ty::Master => TagDataType::Master,
            Ty::U => TagDataType::UnsignedInt,
            Ty::I => TagDataType::Integer,
            Ty::F => TagDataType::Float,
            Ty::S => TagDataType::Utf8,
            Ty::B => TagDataType::Binary,
        }
    }
    pub fn from_lib(t: TagDataType) -> Ty {
        match t {
            TagDataType::Master => Ty::Master,
            TagDataType::UnsignedInt => Ty::U,
            TagDataType::Integer => Ty::I,
            TagDataType::Float => Ty::F,
            TagDataType::Utf8 => Ty::S,
            TagDataType::Binary => Ty::B,
        }
    }
}

#[derive(Clone, Copy, Debug, PartialEq, Eq, Hash)]
pub enum PP {
    Id(u64),
    Glob(Option<u64>, Option<u64>),
}

#[derive(Clone, Debug)]
pub struct ElemDef {
    pub name: String,
    pub id: u64,
    pub ty: Ty,
    pub path: Vec<PP>,
}

/// Reference specification: a plain table.
#[derive(Clone, Debug)]
pub struct RefSpec {
    pub elems: Vec<ElemDef>,
}

impl RefSpec {
    pub fn get(&self, id: u64) -> Option<&ElemDef> {
        self.elems.iter().find(|e| e.id == id)
    }
    pub fn ty(&self, id: u64) -> Option<Ty> {
        self.get(id).map(|e| e.ty)
    }
    pub fn path(&self, id: u64) -> &[PP] {
        self.get(id).map(|e| &e.path[..]).unwrap_or(&[])
    }
    pub fn is_global(&self, id: u64) -> bool {
        self.path(id).iter().any(|p| matches!(p, PP::Glob(..)))
    }
    pub fn is_root(&self, id: u64) -> bool {
        self.get(id).map(|e| e.path.is_empty()).unwrap_or(false)
    }
    pub fn masters(&self) -> Vec<u64> {
        self.elems.iter().filter(|e| e.ty == Ty::Master).map(|e| e.id).collect()
    }
    /// Declared path read as a pattern over the chain of open masters (outermost first).
    pub fn allowed(&self, id: u64, chain: &[u64]) -> bool {
        match self.get(id) {
            None => false,
            Some(e) => ref_path_match(&e.path, chain),
        }
    }
    /// `closes(m, x)` of DESIGN §2.6: does element x end the unknown-size master m?
    pub fn closes(&self, m: u64, x: u64) -> bool {
        if self.get(x).is_none() || self.is_global(x) {
            return false;
        }
        self.path(x) == self.path(m) || self.path(m).iter().any(|p| *p == PP::Id(x)) || self.is_root(x)
    }
    /// elements that may appear directly under `chain` (non-global ones)
    pub fn non_global_children(&self, chain: &[u64]) -> Vec<u64> {
        self.elems.iter().filter(|e| !self.is_global(e.id) && ref_path_match(&e.path, chain)).map(|e| e.id).collect()
    }
    pub fn name(&self, id: u64) -> String {
        self.get(id).map(|e| e.name.clone()).unwrap_or_else(|| format!("{:#x}", id))
    }
}

/// 20-line recursive pattern matcher (deliberately not the library's single-pass counter algorithm).
pub fn ref_path_match(path: &[PP], chain: &[u64]) -> bool {
    match path.split_first() {
        None => chain.is_empty(),
        Some((PP::Id(x), rest)) => !chain.is_empty() && chain[0] == *x && ref_path_match(rest, &chain[1..]),
        Some((PP::Glob(min, max), rest)) => {
            let min = min.unwrap_or(0);
            let max = max.unwrap_or(u64::MAX);
            let mut k = 0u64;
            loop {
                if k > max || k as usize > chain.len() {
                    return false;
                }
                if k >= min && ref_path_match(rest, &chain[k as usize..]) {
                    return true;
                }
                k += 1;
            }
        }
    }
}

fn ed(name: &str, id: u64, ty: Ty, path: &[PP]) -> ElemDef {
    ElemDef { name: name.to_string(), id, ty, path: path.to_vec() }
}

/// Hand-written table of V (what was declared above), including the built-in globals.
pub fn v_refspec() -> RefSpec {
    use PP::Id;
    RefSpec {
        elems: vec![
            ed("Ebml", ID_EBML, Ty::Master, &[]),
            ed("EU", ID_EU, Ty::U, &[Id(ID_EBML)]),
            ed("Root", ID_ROOT, Ty::Master, &[]),
            ed("U", ID_U, Ty::U, &[Id(ID_ROOT)]),
            ed("I", ID_I, Ty::I, &[Id(ID_ROOT)]),
            ed("F", ID_F, Ty::F, &[Id(ID_ROOT)]),
            ed("S", ID_S, Ty::S, &[Id(ID_ROOT)]),
            ed("B", ID_B, Ty::B, &[Id(ID_ROOT)]),
            ed("M", ID_M, Ty::Master, &[Id(ID_ROOT)]),
            ed("MU", ID_MU, Ty::U, &[Id(ID_ROOT), Id(ID_M)]),
            ed("N", ID_N, Ty::Master, &[Id(ID_ROOT), Id(ID_M)]),
            ed("NU", ID_NU, Ty::U, &[Id(ID_ROOT), Id(ID_M), Id(ID_N)]),
            ed("K", ID_K, Ty::Master, &[Id(ID_ROOT), Id(ID_M), Id(ID_N)]),
            ed("KU", ID_KU, Ty::U, &[Id(ID_ROOT), Id(ID_M), Id(ID_N), Id(ID_K)]),
            ed("L", ID_L, Ty::Master, &[Id(ID_ROOT), Id(ID_M), Id(ID_N), Id(ID_K)]),
            ed("LB", ID_LB, Ty::B, &[Id(ID_ROOT), Id(ID_M), Id(ID_N), Id(ID_K), Id(ID_L)]),
            ed("P", ID_P, Ty::Master, &[Id(ID_ROOT)]),
            ed("PU", ID_PU, Ty::U, &[Id(ID_ROOT), Id(ID_P)]),
            ed("Tag", ID_TAG, Ty::B, &[PP::Glob(Some(1), Some(2))]),
            ed("Crc32", ID_CRC, Ty::B, &[PP::Glob(Some(1), None)]),
            ed("Void", ID_VOID, Ty::B, &[PP::Glob(None, None)]),
        ],
    }
}

fn pp_of(p: &PathPart) -> PP {
    match p {
        PathPart::Id(i) => PP::Id(*i),
        PathPart::Global((a, b)) => PP::Glob(*a, *b),
    }
}

/// Startup self-check: the specification type `T` agrees with the reference table (a mini C18).
pub fn assert_spec_matches<T: SpecT>(rs: &RefSpec) {
    for e in &rs.elems {
        let t = T::get_tag_data_type(e.id).map(Ty::from_lib);
        assert_eq!(t, Some(e.ty), "machinery: spec/table type mismatch for {:#x}", e.id);
        let p: Vec<PP> = T::get_path_by_id(e.id).iter().map(pp_of).collect();
        assert_eq!(p, e.path, "machinery: spec/table path mismatch for {:#x}", e.id);
    }
    for probe in [0u64, 1, 0x80, 0x85, 0xf2, 0x4f00, 0x4088, 0x1a45dfa4] {
        if rs.get(probe).is_none() {
            assert!(T::get_tag_data_type(probe).is_none(), "machinery: probe id {:#x} known to spec", probe);
        }
    }
}

// ---------------------------------------------------------------------------------------------
// Runtime table-driven specification

#[derive(Debug)]
pub struct TElem {
    pub id: u64,
    pub ty: TagDataType,
    pub path: &'static [PathPart],
}

#[derive(Debug)]
pub struct Table {
    pub elems: Vec<TElem>,
}

thread_local! {
    static TABLE: Cell<Option<&'static Table>> = const { Cell::new(None) };
}

pub fn set_table(t: &'static Table) {
    TABLE.with(|c| c.set(Some(t)));
}

fn table() -> &'static Table {
    TABLE.with(|c| c.get()).expect("machinery: RT table not set")
}

/// Leak a RefSpec into a `'static` runtime table and install it for this thread.
pub fn install_refspec(rs: &RefSpec) -> &'static Table {
    let elems = rs
        .elems
        .iter()
        .map(|e| {
            let path: Vec<PathPart> = e
                .path
                .iter()
                .map(|p| match p {
                    PP::Id(i) => PathPart::Id(*i),
                    PP::Glob(a, b) => PathPart::Global((*a, *b)),
                })
                .collect();
            TElem { id: e.id, ty: e.ty.to_lib(), path: Box::leak(path.into_boxed_slice()) }
        })
        .collect();
    let t: &'static Table = Box::leak(Box::new(Table { elems }));
    set_table(t);
    t
}

#[derive(Clone, Debug, PartialEq)]
pub enum RT {
    M(u64, Master<RT>),
    U(u64, u64),
    I(u64, i64),
    F(u64, f64),
    S(u64, String),
    B(u64, Vec<u8>),
    Raw(u64, Vec<u8>),
}

fn rt_ty(id: u64) -> Option<TagDataType> {
    table().elems.iter().find(|e| e.id == id).map(|e| e.ty)
}

impl EbmlSpecification<RT> for RT {
    fn get_tag_data_type(id: u64) -> Option<TagDataType> {
        rt_ty(id)
    }
    fn get_path_by_id(id: u64) -> &'static [PathPart] {
        table().elems.iter().find(|e| e.id == id).map(|e| e.path).unwrap_or(&[])
    }
    fn get_unsigned_int_tag(id: u64, data: u64) -> Option<RT> {
        matches!(rt_ty(id), Some(TagDataType::UnsignedInt)).then(|| RT::U(id, data))
    }
    fn get_signed_int_tag(id: u64, data: i64) -> Option<RT> {
        matches!(rt_ty(id), Some(TagDataType::Integer)).then(|| RT::I(id, data))
    }
    fn get_utf8_tag(id: u64, data: String) -> Option<RT> {
        matches!(rt_ty(id), Some(TagDataType::Utf8)).then(|| RT::S(id, data))
    }
    fn get_binary_tag(id: u64, data: &[u8]) -> Option<RT> {
        matches!(rt_ty(id), Some(TagDataType::Binary)).then(|| RT::B(id, data.to_vec()))
    }
    fn get_float_tag(id: u64, data: f64) -> Option<RT> {
        matches!(rt_ty(id), Some(TagDataType::Float)).then(|| RT::F(id, data))
    }
    fn get_master_tag(id: u64, data: Master<RT>) -> Option<RT> {
        matches!(rt_ty(id), Some(TagDataType::Master)).then(|| RT::M(id, data))
    }
    fn get_raw_tag(id: u64, data: &[u8]) -> RT {
        RT::Raw(id, data.to_vec())
    }
}

impl EbmlTag<RT> for RT {
    fn get_id(&self) -> u64 {
        match self {
            RT::M(i, _) | RT::U(i, _) | RT::I(i, _) | RT::F(i, _) | RT::S(i, _) | RT::B(i, _) | RT::Raw(i, _) => *i,
        }
    }
    fn as_unsigned_int(&self) -> Option<&u64> {
        if let RT::U(_, v) = self { Some(v) } else { None }
    }
    fn as_signed_int(&self) -> Option<&i64> {
        if let RT::I(_, v) = self { Some(v) } else { None }
    }
    fn as_utf8(&self) -> Option<&str> {
        if let RT::S(_, v) = self { Some(v) } else { None }
    }
    fn as_binary(&self) -> Option<&[u8]> {
        match self {
            RT::B(_, v) | RT::Raw(_, v) => Some(v),
            _ => None,
        }
    }
    fn as_float(&self) -> Option<&f64> {
        if let RT::F(_, v) = self { Some(v) } else { None }
    }
    fn as_master(&self) -> Option<&Master<RT>> {
        if let RT::M(_, v) = self { Some(v) } else { None }
    }
}

/// A runtime specification with masters nested eight deep whose ids have every byte length 1..8
/// (and leaves with ids of every length), plus the globals the derive macro always adds.
pub fn chain_refspec() -> RefSpec {
    let masters: [u64; 8] = [0x91, 0x4091, 0x209191, 0x10919191, 0x0891919191, 0x049191919191, 0x02919191919191, 0x0191919191919191];
    let leaves: [u64; 8] = [0xa1, 0x40a1, 0x20a1a1, 0x10a1a1a1, 0x08a1a1a1a1, 0x04a1a1a1a1a1, 0x02a1a1a1a1a1a1, 0x01a1a1a1a1a1a1a1];
    let tys = [Ty::U, Ty::I, Ty::F, Ty::S, Ty::B, Ty::U, Ty::I, Ty::B];
    let mut elems = Vec::new();
    let mut path: Vec<PP> = Vec::new();
    for i in 0..8 {
        elems.push(ElemDef { name: format!("A{}", i + 1), id: masters[i], ty: Ty::Master, path: path.clone() });
        path.push(PP::Id(masters[i]));
        // the leaf of master i has an id of length 8-i: short ids deep down, long ids near the root
        elems.push(ElemDef { name: format!("a{}", i + 1), id: leaves[7 - i], ty: tys[i], path: path.clone() });
    }
    elems.push(ElemDef { name: "Crc32".into(), id: ID_CRC, ty: Ty::B, path: vec![PP::Glob(Some(1), None)] });
    elems.push(ElemDef { name: "Void".into(), id: ID_VOID, ty: Ty::B, path: vec![PP::Glob(None, None)] });
    RefSpec { elems }
}
